#!/venv/bin/python
"""Self-test of the simulator's threading look-alikes (RLock, Condition, Semaphore, Timer):
a bounded buffer with producers/consumers, a re-entrant section and a timer, run twice per seed;
both runs must give the same event digest and the expected results."""
import hashlib
import os
import sys
sys.path.insert(0, os.path.dirname(os.path.dirname(os.path.abspath(__file__))))
from simdicom import sched, net  # noqa: E402
import threading as _rt  # noqa: E402


def one(seed):
    sim = sched.Sim(seed)
    t0 = sim.now
    cls = net.make_sim_thread_class(sim)
    ns = net.ThreadingNS(sim, _rt, cls)
    cond = ns.Condition()
    rl = ns.RLock()
    sem = ns.BoundedSemaphore(2)
    buf, got, inside, fired = [], [], [0, 0], []

    def prod(k):
        for i in range(5):
            with cond:
                while len(buf) >= 2:
                    cond.wait()
                buf.append((k, i))
                cond.notify_all()
            sim.yield_()

    def cons():
        for _ in range(5):
            with cond:
                ok = cond.wait_for(lambda: buf, 5.0)
                assert ok
                got.append(buf.pop(0))
                cond.notify_all()
            with sem:
                inside[0] += 1
                inside[1] = max(inside[1], inside[0])
                sim.sleep(0.01)
                inside[0] -= 1
            with rl:
                with rl:
                    sim.yield_()

    ts = [ns.Thread(target=prod, args=(k,)) for k in range(2)] + [ns.Thread(target=cons) for _ in range(2)]
    tm = ns.Timer(0.5, lambda: fired.append(sim.now))
    tm2 = ns.Timer(0.5, lambda: fired.append('never'))
    for t in ts + [tm, tm2]:
        t.start()
    tm2.cancel()
    sim.run_all(60.0)
    assert all(not t.is_alive() for t in ts), sim.blocked_report()
    assert sorted(got) == sorted((k, i) for k in range(2) for i in range(5)), got
    assert inside[1] <= 2 and [round(f - t0, 6) for f in fired] == [0.5], (inside, fired)
    with cond:
        assert cond.wait(0.1) is False
    try:
        sem.release()
        raise AssertionError('bounded semaphore over-released')
    except ValueError:
        pass
    sim.unwind()
    return sim.digest.hexdigest() + repr(got)


if __name__ == '__main__':
    n = int(sys.argv[1]) if len(sys.argv) > 1 else 200
    for seed in range(n):
        a, b = one(seed), one(seed)
        assert a == b, seed
    print('syncprims ok: %d seeds twice' % n)
