#!/venv/bin/python
"""Determinism self-test: the per-case event-log digests of every workload must be identical
across fresh interpreters, across worker counts (1 vs 16, i.e. different process placement and
load) and across VERIF_SEED-independent re-runs.  Usage: determinism.py [--limit N] [--props ...]"""
import argparse
import json
import os
import subprocess
import sys
import tempfile

VERIF = os.path.dirname(os.path.dirname(os.path.abspath(__file__)))
STRIDE = {'C03': 61, 'C05': 37, 'C13': 41, 'C12': 11, 'C04': 9, 'C20': 2, 'C10': 3}
PROPS = ['C03', 'C04', 'C05', 'C06', 'C07', 'C08', 'C09', 'C10', 'C11', 'C12', 'C13', 'C14', 'C15',
         'C16', 'C17', 'C19', 'C20']


def digests(prop, limit, jobs, seed, extra_env=None):
    fd, path = tempfile.mkstemp(suffix='.json', dir='/tmp')
    os.close(fd)
    env = dict(os.environ)
    env.update(extra_env or {})
    try:
        p = subprocess.run([os.path.join(VERIF, 'check'), prop, '--digests', path, '--limit',
                            str(limit), '--stride', str(STRIDE.get(prop, 7)), '--jobs', str(jobs),
                            '--seed', str(seed)],
                           env=env, capture_output=True, text=True, timeout=3000)
        if p.returncode != 0:
            raise RuntimeError('%s digests run failed: %s' % (prop, (p.stdout + p.stderr)[-800:]))
        return json.load(open(path))
    finally:
        os.remove(path)


def main():
    ap = argparse.ArgumentParser()
    ap.add_argument('--limit', type=int, default=120)
    ap.add_argument('--props')
    ap.add_argument('--seed', type=int, default=3)
    a = ap.parse_args()
    props = a.props.split(',') if a.props else PROPS
    bad = 0
    total = 0
    for prop in props:
        a1 = digests(prop, a.limit, 1, a.seed)
        a2 = digests(prop, a.limit, 16, a.seed)
        a3 = digests(prop, a.limit, 5, a.seed, {'PYTHONHASHSEED': '12345'})   # re-exec pins it
        n = len(a1)
        total += n
        diff = [i for i in range(n) if not (a1[i] == a2[i] == a3[i])]
        nod = sum(1 for x in a1 if x[1] is None)
        print('%s: %d cases x 3 runs (1 worker / 16 workers / 5 workers+other hash seed): '
              '%d differ, %d without digest' % (prop, n, len(diff), nod))
        for i in diff[:3]:
            print('   ', a1[i][0][:200], a1[i][1:], a2[i][1:], a3[i][1:])
        bad += len(diff)
    print('determinism: %d cases compared, %d differing' % (total, bad))
    return 1 if bad else 0


if __name__ == '__main__':
    sys.exit(main())
