#!/venv/bin/python
"""Sensitivity self-test: apply one-hunk mutants to a scratch copy of the library (outside /repo
and /verif), run the quick tier of the named checks with VERIF_REPO pointing at the copy and
require exit 1 (VIOLATION).  Usage: mutants.py [--only NAME_SUBSTR] [--props C03,C05] [--tests]"""
import argparse
import os
import shutil
import subprocess
import sys
import tempfile

VERIF = os.path.dirname(os.path.dirname(os.path.abspath(__file__)))

# (name, file, old, new, [properties that must catch it])
MUTANTS = [
    ('framing-le', 'dulprovider.py', 'if len(self.raw_pdu) < full_length:',
     'if len(self.raw_pdu) <= full_length:', ['C03']),
    ('framing-plus5', 'dulprovider.py', 'full_length = length + 6', 'full_length = length + 5',
     ['C03']),
    ('no-drain-first', 'dulprovider.py', 'if self.raw_pdu and self._process_incoming():',
     'if False and self._process_incoming():', ['C03']),
    ('recv-overwrites', 'dulprovider.py', 'self.raw_pdu += data', 'self.raw_pdu = data', ['C03']),
    # ('header-lt-6' is listed further down for C05: a 6-byte PDU that is only framed once a
    # seventh byte has arrived gives the same result under every segmentation, so the
    # differential C03 cannot see it - DESIGN 13.2)
    ('eof-no-evt17', 'dulprovider.py',
     "        if not data:\n            # Remote port has been closed\n            self.event.append(fsm.Events.EVT_17)",
     "        if not data:\n            # Remote port has been closed\n            pass", ['C05', 'C13']),
    ('timer-never', 'dulprovider.py', 'if self.timer.check() is False:',
     'if self.timer.check() is None:', ['C05', 'C13']),
    ('timer-lt', 'dulprovider.py', '> self._max_seconds', '< self._max_seconds', ['C05']),
    ('rel-rq-rp-swapped', 'dulprovider.py',
     '0x05: (pdu.AReleaseRqPDU, fsm.Events.EVT_12),\n    0x06: (pdu.AReleaseRpPDU, fsm.Events.EVT_13),',
     '0x05: (pdu.AReleaseRqPDU, fsm.Events.EVT_13),\n    0x06: (pdu.AReleaseRpPDU, fsm.Events.EVT_12),',
     ['C05']),
    ('cell-evt13-sta6', 'fsm.py', '(Events.EVT_13, States.STA_6): self.aa_8,',
     '(Events.EVT_13, States.STA_6): self.aa_6,', ['C04', 'C05']),
    ('cell-evt16-sta13', 'fsm.py', '(Events.EVT_16, States.STA_13): self.aa_2,',
     '(Events.EVT_16, States.STA_13): self.aa_6,', ['C04', 'C05']),
    ('ar3-no-close', 'fsm.py',
     '        """Issue A-RELEASE confirmation primitive and close transport connection."""\n        self.to_service_user.put(self.primitive)\n        self.dul_socket.close()\n        self.dul_socket = None',
     '        """Issue A-RELEASE confirmation primitive and close transport connection."""\n        self.to_service_user.put(self.primitive)\n        self.dul_socket = None',
     ['C04', 'C05']),
    ('aa3-no-indication', 'fsm.py',
     '        This action is triggered by the reception of an A-ABORT PDU.\n        """\n        self.to_service_user.put(self.primitive)',
     '        This action is triggered by the reception of an A-ABORT PDU.\n        """', ['C04', 'C05']),
    ('ar4-no-timer', 'fsm.py',
     '        self.primitive = pdu.AReleaseRpPDU()\n        self.dul_socket.sendall(self.primitive.encode())\n        self.timer.start()',
     '        self.primitive = pdu.AReleaseRpPDU()\n        self.dul_socket.sendall(self.primitive.encode())',
     ['C04', 'C05']),
    ('ar8-role-inverted', 'fsm.py', 'if self.provider.requestor == 1:',
     'if self.provider.requestor != 1:', ['C04', 'C05']),
    ('dt2-early-delivery', 'fsm.py',
     '        if not self.dimse_decoder.receiving:\n            msg, pc_id = self.dimse_decoder.msg, self.dimse_decoder.pc_id\n            self.to_service_user.put((msg, pc_id))\n            self.dimse_decoder = None\n        return States.STA_6',
     '        if self.dimse_decoder.msg is not None:\n            msg, pc_id = self.dimse_decoder.msg, self.dimse_decoder.pc_id\n            self.to_service_user.put((msg, pc_id))\n            self.dimse_decoder = None\n        return States.STA_6',
     ['C07']),
    ('aa8-source-user', 'fsm.py', 'self.primitive = pdu.AAbortPDU(source=2, reason_diag=0)\n        if self.dul_socket:',
     'self.primitive = pdu.AAbortPDU(source=0, reason_diag=0)\n        if self.dul_socket:', ['C04', 'C05']),
    ('header-lt-6-c05', 'dulprovider.py', 'if len(self.raw_pdu) < 6:', 'if len(self.raw_pdu) < 7:',
     ['C05']),
    ('chunks-le', 'dimsemessages.py', '(pos + size < length)', '(pos + size <= length)', ['C06']),
    ('maxsize-minus5', 'dimsemessages.py',
     '    maxsize = (max_pdu_length or UNLIMITED_PDU_LENGTH) - 6\n    for chunk, has_next in chunks(data_set, maxsize):',
     '    maxsize = (max_pdu_length or UNLIMITED_PDU_LENGTH) - 5\n    for chunk, has_next in chunks(data_set, maxsize):',
     ['C06', 'C10']),
    ('file-maxsize-minus5', 'dimsemessages.py',
     '    maxsize = (max_pdu_length or UNLIMITED_PDU_LENGTH) - 6\n    while True:',
     '    maxsize = (max_pdu_length or UNLIMITED_PDU_LENGTH) - 5\n    while True:', ['C06']),
    ('cmd-data-flags-swapped', 'dimsemessages.py',
     'for item, bit in fragment(encoded_command_set, max_pdu_length, 1, 3):',
     'for item, bit in fragment(encoded_command_set, max_pdu_length, 0, 2):', ['C06']),
    ('file-last-flag', 'dimsemessages.py',
     "        has_next = fp.read(1)\n        if has_next:\n            fp.seek(-1, 1)",
     "        has_next = fp.read(1)\n        if has_next:\n            fp.seek(0, 1)", ['C06']),
    ('dataset-flag-forgotten', 'dimsemessages.py',
     '        if value:\n            self.command_set.CommandDataSetType = 0x0001',
     '        if value:\n            pass', ['C08']),
    ('group-length-plus-two', 'dimsemessages.py',
     "for v in self.command_set.values() if v.tag != (0x0000, 0x0000))",
     "for v in list(self.command_set.values())[1:])", ['C08']),
    ('lazy-command-encoding', 'dimsemessages.py',
     "        return self._fragments(encoded_command_set, self.data_set, pc_id, max_pdu_length)",
     "        return self._fragments(None, self, pc_id, max_pdu_length)", ['C06', 'C08']),
    ('wrong-pcid', 'dimsemessages.py',
     "            value_item = pdu.PresentationDataValueItem(pc_id, struct.pack('b', bit) + item)\n            yield pdu.PDataTfPDU([value_item])\n\n        # fragment data set",
     "            value_item = pdu.PresentationDataValueItem(1, struct.pack('b', bit) + item)\n            yield pdu.PDataTfPDU([value_item])\n\n        # fragment data set", ['C06']),
    ('decoder-cmd-completes-early', 'fsm.py', 'if no_ds or self.data_set_received:',
     'if True:', ['C07']),
    ('decoder-forgets-seek', 'fsm.py', 'self._dataset_fp.seek(self._start)', 'pass', ['C07']),
    ('write-meta-wrong-ts', 'applicationentity.py', 'meta.TransferSyntaxUID = ts',
     "meta.TransferSyntaxUID = uid.ImplicitVRLittleEndian", ['C07', 'C15']),
    ('write-meta-wrong-instance', 'applicationentity.py',
     'meta.MediaStorageSOPInstanceUID = command_set.AffectedSOPInstanceUID',
     'meta.MediaStorageSOPInstanceUID = command_set.AffectedSOPClassUID', ['C07', 'C15']),
    ('decoder-pcid-first', 'fsm.py', '                self.pc_id = value_item.context_id',
     '                self.pc_id = self.pc_id or 1', ['C07']),
    ('decoder-drops-data-join', 'fsm.py', "self.msg.data_set = b''.join(self._encoded_data_set)",
     "self.msg.data_set = b''.join(self._encoded_data_set[:1])", ['C07']),
    ('accept-ts-not-checked', 'asceprovider.py', '                if ts.name in self.ae.supported_ts:',
     '                if ts.name in self.ae.supported_ts or len(proposed_ts) > 2:', ['C09']),
    ('accept-returns-first-supported-of-ae', 'asceprovider.py',
     '                    rsp.append(pdu.PresentationContextItemAC(pc_id, 0, ts))\n                    ts_uid = uid.UID(ts.name)',
     '                    ts = pdu.TransferSyntaxSubItem(sorted(self.ae.supported_ts)[0])\n                    rsp.append(pdu.PresentationContextItemAC(pc_id, 0, ts))\n                    ts_uid = uid.UID(ts.name)',
     ['C09']),
    ('accept-drops-refused-items', 'asceprovider.py',
     "                # refuse sop class because of SOP class not supported\n                rsp.append(pdu.PresentationContextItemAC(pc_id, 1, pdu.TransferSyntaxSubItem('')))\n                continue",
     "                # refuse sop class because of SOP class not supported\n                continue", ['C09']),
    ('accept-routing-ts-differs', 'asceprovider.py',
     '                    self.sop_classes_as_scp[pc_id] = (pc_id, proposed_sop, ts_uid)',
     '                    self.sop_classes_as_scp[pc_id] = (pc_id, proposed_sop, uid.UID(proposed_ts[-1].name))',
     ['C09']),
    ('accept-unserved-sop-accepted', 'asceprovider.py',
     '            if proposed_sop not in self.ae.supported_scp:',
     '            if proposed_sop not in self.ae.supported_scp and pc_id > 100:', ['C09']),
    ('accept-titles-swapped', 'asceprovider.py',
     '            called_ae_title=assoc_req.called_ae_title,\n            calling_ae_title=assoc_req.calling_ae_title,',
     '            called_ae_title=assoc_req.calling_ae_title,\n            calling_ae_title=assoc_req.called_ae_title,', ['C09']),
    ('loop-ignores-context-table', 'asceprovider.py',
     '                _, sop_class, ts = self.sop_classes_as_scp[pc_id]',
     '                _, sop_class, ts = self.sop_classes_as_scp.get(pc_id) or next(iter(self.sop_classes_as_scp.values()))', ['C09']),
    ('ctx-ids-step1', 'applicationentity.py', 'count(start, 2))}', 'count(start, 1))}', ['C11']),
    ('ctx-ids-start2', 'applicationentity.py',
     "        start = max(self.context_def_list.keys()) + 2 if self.context_def_list \\\n            else 1",
     "        start = max(self.context_def_list.keys()) + 2 if self.context_def_list \\\n            else 2", ['C11']),
    ('requester-accepts-result-1', 'asceprovider.py', 'if ctx.result_reason == 0)',
     'if ctx.result_reason in (0, 1))', ['C11']),
    ('requester-ts-of-proposal', 'asceprovider.py',
     '            ts_uid = uid.UID(ctx.ts_sub_item.name)\n            self.sop_classes_as_scu[sop_class] = (pc_id, ts_uid)',
     '            ts_uid = uid.UID(sorted(self.context_def_list[ctx.context_id].supported_ts)[0])\n            self.sop_classes_as_scu[sop_class] = (pc_id, ts_uid)', ['C11']),
    ('requester-titles-swapped', 'asceprovider.py',
     "            called_ae_title=remote_ae['aet'],\n            calling_ae_title=local_ae['aet'],",
     "            called_ae_title=local_ae['aet'],\n            calling_ae_title=remote_ae['aet'],", ['C11']),
    ('get-scu-generic-error', 'asceprovider.py',
     "            pc_id, ts = self.sop_classes_as_scu[sop_class]\n            service = self.ae.supported_scu[sop_class]\n        except KeyError:",
     "            pc_id, ts = self.sop_classes_as_scu[sop_class]\n            service = self.ae.supported_scu[sop_class]\n        except IndexError:", ['C11']),
    ('dedup-removed', 'applicationentity.py', '            if sop_class not in known:',
     '            if True:', ['C11']),
    ('too-many-check-off-by-one', 'asceprovider.py', 'if any(not 0 < pc_id < 256 for pc_id',
     'if any(not 0 < pc_id < 258 for pc_id', ['C11']),
    ('abort-fields-swapped', 'asceprovider.py',
     'raise exceptions.AssociationAbortedError(dul_msg.source, dul_msg.reason_diag)',
     'raise exceptions.AssociationAbortedError(dul_msg.reason_diag, dul_msg.source)', ['C14']),
    ('rj-fields-rotated', 'asceprovider.py',
     '            self.reject(exc.result, exc.source, exc.diagnostic)',
     '            self.reject(exc.result, exc.diagnostic, exc.source)', ['C14']),
    ('rj-error-fields-rotated', 'asceprovider.py',
     '                dul_msg.result, dul_msg.source, dul_msg.reason_diag)',
     '                dul_msg.source, dul_msg.result, dul_msg.reason_diag)', ['C14']),
    ('exit-release-abort-swapped', 'applicationentity.py',
     '            if assoc and assoc.association_established:\n                assoc.abort()',
     '            if assoc and assoc.association_established:\n                assoc.release()', ['C14']),
    ('normal-exit-aborts', 'applicationentity.py',
     '            if assoc.association_established:\n                assoc.release()',
     '            if assoc.association_established:\n                assoc.abort()', ['C14']),
    ('acceptor-abort-source', 'asceprovider.py',
     '        self.dul.send(pdu.AAbortPDU(source=2, reason_diag=reason))',
     '        self.dul.send(pdu.AAbortPDU(source=0, reason_diag=reason))', ['C14']),
    ('released-no-rp', 'asceprovider.py',
     '        except exceptions.AssociationReleasedError:\n            self.dul.send(pdu.AReleaseRpPDU())',
     '        except exceptions.AssociationReleasedError:\n            pass', ['C14']),
    ('select-always-waits', 'dulprovider.py',
     'timeout = 0 if self.dimse_gen or not self.from_service_user.empty() else 0.05',
     'timeout = 0.05', ['C14']),
    ('store-rsp-drops-msgid', 'sopclass.py',
     "    rsp = dimsemessages.CStoreRSPMessage()\n    rsp.message_id_being_responded_to = msg.message_id\n    rsp.affected_sop_instance_uid = msg.affected_sop_instance_uid\n    rsp.sop_class_uid = msg.sop_class_uid\n    rsp.status = int(status)",
     "    rsp = dimsemessages.CStoreRSPMessage()\n    rsp.message_id_being_responded_to = 1\n    rsp.affected_sop_instance_uid = msg.affected_sop_instance_uid\n    rsp.sop_class_uid = msg.sop_class_uid\n    rsp.status = int(status)", ['C17']),
    ('find-final-drops-msgid', 'sopclass.py',
     "    rsp = dimsemessages.CFindRSPMessage()\n    rsp.message_id_being_responded_to = msg.message_id\n    rsp.sop_class_uid = msg.sop_class_uid\n    rsp.status = int(statuses.SUCCESS)",
     "    rsp = dimsemessages.CFindRSPMessage()\n    rsp.sop_class_uid = msg.sop_class_uid\n    rsp.status = int(statuses.SUCCESS)", ['C17']),
    ('move-final-wrong-class', 'sopclass.py',
     "    rsp = dimsemessages.CMoveRSPMessage()\n    rsp.message_id_being_responded_to = msg.message_id\n    rsp.sop_class_uid = msg.sop_class_uid\n    rsp.num_of_remaining_sub_ops = nop - completed",
     "    rsp = dimsemessages.CMoveRSPMessage()\n    rsp.message_id_being_responded_to = msg.message_id\n    rsp.sop_class_uid = ctx.supported_ts\n    rsp.num_of_remaining_sub_ops = nop - completed", ['C17']),
    ('get-store-rsp-on-get-context', 'sopclass.py', '            asce.send(rsp, pc_id)',
     '            asce.send(rsp, ctx.id)', ['C17', 'C19']),
    ('store-failure-status-success', 'sopclass.py',
     '        status = statuses.C_STORE_CANNON_UNDERSTAND', '        status = statuses.SUCCESS',
     ['C17']),
    ('echo-status-ignored', 'sopclass.py',
     "    rsp.sop_class_uid = msg.sop_class_uid\n    rsp.status = int(status)\n    asce.send(rsp, ctx.id)\n\n\n@sop_classes([])",
     "    rsp.sop_class_uid = msg.sop_class_uid\n    rsp.status = 0\n    asce.send(rsp, ctx.id)\n\n\n@sop_classes([])", ['C17']),
    ('n-action-rsp-instance', 'sopclass.py', '        rsp.affected_sop_instance_uid = instance_uid\n        ds = dsutils.decode',
     '        rsp.affected_sop_instance_uid = ctx.sop_class\n        ds = dsutils.decode', ['C17']),
    ('dispatch-n-action-as-event', 'sopclass.py', "        0x0130: 'n_action',", "        0x0130: 'n_event_report',", ['C17']),
    ('lazy-encode-again', 'dimsemessages.py',
     "        encoded_command_set = dsutils.encode(self.command_set, True, True)\n        return self._fragments(encoded_command_set, self.data_set, pc_id, max_pdu_length)",
     "        def _lazy():\n            for x in self._fragments(dsutils.encode(self.command_set, True, True),\n                                     self.data_set, pc_id, max_pdu_length):\n                yield x\n        return _lazy()",
     ['C16', 'C08', 'C06']),
    ('find-scu-stops-on-pending', 'sopclass.py', '        if not status.is_pending:\n            break\n\n\n@sop_classes(FIND_SOP_CLASSES)',
     '        if status.is_pending:\n            break\n\n\n@sop_classes(FIND_SOP_CLASSES)', ['C16']),
    ('find-scp-skips-first-match', 'sopclass.py', '    gen = asce.ae.on_receive_find(ctx, ds)\n    for data_set, status in gen:',
     '    gen = asce.ae.on_receive_find(ctx, ds)\n    for data_set, status in list(gen)[1:] if msg.message_id == 7 and False else gen:', []),
    ('find-scp-status-const', 'sopclass.py', '        rsp.status = int(status)\n        rsp.data_set = dsutils.encode(data_set,',
     '        rsp.status = 0xFF00\n        rsp.data_set = dsutils.encode(data_set,', ['C16']),
    ('find-scu-drops-dataset-of-ff01', 'sopclass.py', '        if response.data_set:\n            data_set = dsutils.decode(response.data_set,\n                                      ctx.supported_ts.is_implicit_VR,\n                                      ctx.supported_ts.is_little_endian)\n        else:\n            data_set = None\n        status = statuses.Status(response.status, dimsemessages.CFindRSPMessage)',
     '        if response.data_set and response.status != 0xFF01:\n            data_set = dsutils.decode(response.data_set,\n                                      ctx.supported_ts.is_implicit_VR,\n                                      ctx.supported_ts.is_little_endian)\n        else:\n            data_set = None\n        status = statuses.Status(response.status, dimsemessages.CFindRSPMessage)', ['C16']),
    ('msgid-global', '__init__.py',
     "    msg_id = getattr(_tls, 'msg_id', None)\n    if msg_id is None:\n        _tls.msg_id = 1\n        return _tls.msg_id\n\n    _tls.msg_id += 1\n    return _tls.msg_id",
     "    global _MSG\n    cur = globals().get('_MSG', 0)\n    nxt = cur + 1\n    _MSG = nxt % 4 + 1\n    return _MSG", ['C20']),
    ('accepted-contexts-on-ae', 'asceprovider.py',
     '        self.accepted_contexts = {}\n\n    def send(self, dimse_msg, pc_id):',
     "        self.accepted_contexts = local_ae.__dict__.setdefault('_acc', {})\n\n    def send(self, dimse_msg, pc_id):", ['C20']),
    ('move-counter-late-again', 'sopclass.py', '            status = service(data_set, completed)\n            completed += 1\n',
     '            status = service(data_set, completed)\n', ['C19']),
    ('move-n0-falls-through', 'sopclass.py', '        _send_response(asce, ctx, msg, 0, 0, 0, 0)\n        return\n',
     '        _send_response(asce, ctx, msg, 0, 0, 0, 0)\n', ['C19']),
    ('storage-file-nonexclusive', '__init__.py', 'os.O_RDWR | os.O_CREAT | os.O_EXCL | getattr',
     'os.O_RDWR | os.O_CREAT | getattr', ['C15']),
    ('store-status-swallowed', 'sopclass.py', "    response, _ = asce.receive()\n    return statuses.Status(response.status, dimsemessages.CStoreRSPMessage)",
     "    response, _ = asce.receive()\n    return statuses.Status(0 if response.status == 0xB000 else response.status, dimsemessages.CStoreRSPMessage)", ['C15']),
    ('min-pdu-check-off', 'dimsemessages.py', 'if 0 < max_pdu_length < MIN_PDU_LENGTH:',
     'if False:', ['C12']),
    ('get-refused-rsp-on-get-ctx', 'sopclass.py', '            asce.send(rsp, pc_id)\n',
     '            asce.send(rsp, ctx.id if int(status) == 0xC000 else pc_id)\n', ['C19']),
    ('move-unknown-dest-connects', 'sopclass.py', '    if not nop:\n        # nothing to move',
     '    if not nop and remote_ae:\n        # nothing to move', ['C19']),
    ('ar6-back-to-sta6', 'fsm.py',
     "            self.dimse_decoder = None\n        return States.STA_7",
     "            self.dimse_decoder = None\n        return States.STA_6", ['C04', 'C14']),
    ('aa7-silent', 'fsm.py',
     "        self.primitive = pdu.AAbortPDU(source=2, reason_diag=0)\n        self.dul_socket.sendall(self.primitive.encode())\n        return States.STA_13",
     "        self.primitive = pdu.AAbortPDU(source=2, reason_diag=0)\n        return States.STA_13", ['C04', 'C12']),
    # round 12
    ('ae1-only-connection-errors', 'fsm.py', '        except socket.error:\n            # Transport connection can not be opened',
     '        except ConnectionError:\n            # Transport connection can not be opened', ['C04']),
    ('user-queue-bounded', 'dulprovider.py', 'self.to_service_user = queue.Queue()',
     'self.to_service_user = queue.Queue(maxsize=64)', ['C14']),
    ('requester-local-zero-wins', 'asceprovider.py',
     'if max_pdu_length and (self.max_pdu_length or 2 ** 32) > max_pdu_length:',
     'if max_pdu_length and self.max_pdu_length > max_pdu_length:', ['C06', 'C10']),
]


def run(cmd, env, timeout=1800):
    p = subprocess.run(cmd, env=env, capture_output=True, text=True, timeout=timeout)
    return p.returncode, p.stdout + p.stderr


def main():
    ap = argparse.ArgumentParser()
    ap.add_argument('--only')
    ap.add_argument('--props')
    ap.add_argument('--tests', action='store_true', help='also run the repository test suite on the mutant')
    ap.add_argument('--budget', default='40')
    args = ap.parse_args()
    repo = os.environ.get('VERIF_REPO_SRC', '/repo')
    ok = True
    rows = []
    for name, fn, old, new, props in MUTANTS:
        if args.only and not any(x in name for x in args.only.split(',')):
            continue
        if args.props:
            props = [p for p in props if p in args.props.split(',')]
            if not props:
                continue
        tmp = tempfile.mkdtemp(prefix='mut-', dir='/tmp')
        try:
            shutil.copytree(os.path.join(repo, 'pynetdicom2'), os.path.join(tmp, 'pynetdicom2'))
            path = os.path.join(tmp, 'pynetdicom2', fn)
            src = open(path).read()
            if src.count(old) != 1:
                print('MUTANT %s: pattern occurs %d times -- skipped (stale)' % (name, src.count(old)))
                ok = False
                continue
            open(path, 'w').write(src.replace(old, new))
            env = dict(os.environ)
            env['VERIF_REPO'] = tmp
            env['VERIF_REPLAYS'] = os.path.join(tmp, '_replays')
            env['VERIF_BUDGET_S'] = args.budget
            if args.tests:
                shutil.copytree(os.path.join(repo, 'tests'), os.path.join(tmp, 'tests'))
                rc, out = run(['/venv/bin/python', '-m', 'pytest', '-q', '-p', 'no:cacheprovider',
                               'tests/test_dimsemessages.py', 'tests/test_pdu.py'],
                              dict(env, PYTHONPATH=tmp), 600)
                if rc != 0:
                    print('MUTANT %s: repository tests FAIL on it (not a valid mutant)' % name)
            for prop in props:
                rc, out = run([os.path.join(VERIF, 'check'), prop, '--tier', 'quick',
                               '--no-evidence'], env)
                caught = rc == 1 and 'VIOLATION property=%s' % prop in out
                sig = [l for l in out.splitlines() if l.startswith('signature')][:1]
                rows.append((name, prop, caught, rc))
                print('MUTANT %-22s %s %s rc=%d %s' % (name, prop, 'CAUGHT' if caught else 'MISSED',
                                                       rc, sig[0][:110] if sig else ''))
                sys.stdout.flush()
                if not caught:
                    ok = False
                    print(out[-1500:])
        finally:
            shutil.rmtree(tmp, ignore_errors=True)
            # replays written for mutants are not evidence about /repo (private directory)
            shutil.rmtree(env.get('VERIF_REPLAYS', '/nonexistent'), ignore_errors=True)
    print('sensitivity: %d/%d caught' % (sum(1 for r in rows if r[2]), len(rows)))
    return 0 if ok else 1


if __name__ == '__main__':
    sys.exit(main())
