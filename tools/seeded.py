#!/venv/bin/python
"""Verify and evaluate seeded property-breaking changes produced by independent sub-agents.

  seeded.py verify <ID> [--name NAME]  -- confirm in the agent's scratch worktree /tmp/wt/<ID>:
        demo passes without the patch, stable tests pass with it, demo fails with it; then copy
        patch.diff, demo.py, meta.json to /verif/seeded/<NAME>/ and remove the worktree.
  seeded.py eval <NAME> [--props C05,C12] [--tier quick]
        apply /verif/seeded/<NAME>/patch.diff to /repo (git apply), run the checks, undo
        (git checkout -- .); prints CAUGHT/MISSED per check and records it in meta.json.
"""
import argparse
import json
import os
import shutil
import subprocess
import sys

VERIF = os.path.dirname(os.path.dirname(os.path.abspath(__file__)))
SEEDED = os.path.join(VERIF, 'seeded')
TESTS = ['/venv/bin/python', '-m', 'pytest', '-q', '-p', 'no:cacheprovider',
         'tests/test_dimsemessages.py', 'tests/test_pdu.py']


def sh(cmd, cwd=None, env=None, timeout=900):
    p = subprocess.run(cmd, cwd=cwd, env=env, capture_output=True, text=True, timeout=timeout)
    return p.returncode, (p.stdout + p.stderr)


def verify(ident, name):
    wt = '/tmp/wt/%s' % ident
    out = '/tmp/wtout/%s' % ident
    env = dict(os.environ, PYTHONPATH=wt)
    log = []
    rc, o = sh(['git', '-C', wt, 'status', '--porcelain'])
    if o.strip():
        sh(['git', '-C', wt, 'checkout', '--', '.'])
    rc0, o0 = sh(['/venv/bin/python', 'demo.py'], cwd=out, env=env, timeout=120)
    log.append('demo without patch: rc=%d' % rc0)
    rc, o = sh(['git', '-C', wt, 'apply', os.path.join(out, 'patch.diff')])
    if rc != 0:
        print('patch does not apply: %s' % o)
        return 1
    rct, ot = sh(TESTS, cwd=wt, timeout=600)
    log.append('stable tests with patch: rc=%d (%s)' % (rct, ot.strip().splitlines()[-1] if ot.strip() else ''))
    fails = 0
    for i in range(3):
        rc1, o1 = sh(['/venv/bin/python', 'demo.py'], cwd=out, env=env, timeout=120)
        fails += rc1 != 0
    log.append('demo with patch: failed %d of 3 runs' % fails)
    sh(['git', '-C', wt, 'checkout', '--', '.'])
    ok = rc0 == 0 and rct == 0 and fails == 3
    print('\n'.join(log))
    print('VERIFIED' if ok else 'NOT-VERIFIED')
    if not ok:
        print(o0[-800:])
        return 1
    dst = os.path.join(SEEDED, name)
    os.makedirs(dst, exist_ok=True)
    for f in ('patch.diff', 'demo.py'):
        shutil.copy(os.path.join(out, f), os.path.join(dst, f))
    meta = {}
    try:
        meta = json.load(open(os.path.join(out, 'meta.json')))
    except Exception:  # noqa
        pass
    meta['verification'] = log
    meta['origin'] = 'independent sub-agent given only the property text and a scratch worktree'
    meta.setdefault('property', ident)
    json.dump(meta, open(os.path.join(dst, 'meta.json'), 'w'), indent=1)
    sh(['git', '-C', '/repo', 'worktree', 'remove', '--force', wt])
    return 0


def evaluate(name, props, tier, budget, repo='/repo'):
    dst = os.path.join(SEEDED, name)
    meta = json.load(open(os.path.join(dst, 'meta.json')))
    props = props or [meta['property']]
    rc, o = sh(['git', '-C', repo, 'status', '--porcelain'])
    if o.strip():
        print('%s is not clean; refusing' % repo)
        return 2
    patch = os.path.join(dst, 'patch.rebased.diff')
    if not os.path.exists(patch):
        patch = os.path.join(dst, 'patch.diff')
    rc, o = sh(['git', '-C', repo, 'apply', patch])
    if rc != 0:
        # /repo moved on (later fix: commits): fall back to a 3-way merge of the hunk
        rc, o = sh(['git', '-C', repo, 'apply', '--3way', patch])
        sh(['git', '-C', repo, 'reset', '-q'])
    if rc != 0:
        print('patch does not apply to %s: %s' % (repo, o))
        sh(['git', '-C', repo, 'checkout', '--', '.'])
        return 2
    res = meta.setdefault('evaluation', {})
    rep = '/tmp/verif-replays-%d' % os.getpid()     # private: evaluations may run side by side
    try:
        for p in props:
            env = dict(os.environ, VERIF_REPLAYS=rep)
            if repo != '/repo':
                env['VERIF_REPO'] = repo
            if budget:
                env['VERIF_BUDGET_S'] = str(budget)
            rc, o = sh([os.path.join(VERIF, 'check'), p, '--tier', tier, '--no-evidence'], env=env,
                       timeout=3000)
            sigs = [l for l in o.splitlines() if l.startswith('signature')]
            caught = rc == 1 and ('VIOLATION property=%s' % p) in o
            res['%s/%s' % (p, tier)] = {'caught': caught, 'rc': rc, 'signatures': sigs[:4]}
            print('%s %s/%s rc=%d %s' % ('CAUGHT' if caught else 'MISSED', p, tier, rc,
                                         sigs[0][:140] if sigs else ''))
            if rc == 2:
                print(o[-1500:])
    finally:
        sh(['git', '-C', repo, 'checkout', '--', '.'])
        shutil.rmtree(rep, ignore_errors=True)
    json.dump(meta, open(os.path.join(dst, 'meta.json'), 'w'), indent=1)
    return 0


def main():
    ap = argparse.ArgumentParser()
    ap.add_argument('cmd', choices=['verify', 'eval'])
    ap.add_argument('ident')
    ap.add_argument('--name')
    ap.add_argument('--props')
    ap.add_argument('--tier', default='quick')
    ap.add_argument('--budget', type=int, default=0)
    ap.add_argument('--repo', default='/repo',
                    help='evaluate against a scratch worktree instead of /repo (VERIF_REPO)')
    a = ap.parse_args()
    if a.cmd == 'verify':
        return verify(a.ident, a.name or a.ident.lower() + '-a')
    return evaluate(a.ident, a.props.split(',') if a.props else None, a.tier, a.budget, a.repo)


if __name__ == '__main__':
    sys.exit(main())
