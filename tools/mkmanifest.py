#!/venv/bin/python
"""Regenerate /verif/MANIFEST.json from the table below (keeps it valid and in one place)."""
import json
import os
import subprocess

VERIF = os.path.dirname(os.path.dirname(os.path.abspath(__file__)))
NA = {
    'C01': 'pure codec function of its argument (encode/decode round-trip): no schedule, clock, transport, file or fault for a simulator to own; deciding it is input generation, not deterministic simulation (DESIGN 6/C01)',
    'C02': 'pure encoder/decoder conformance for all inputs: needs an independent parser and input generation, but has no concurrency, time, I/O or fault dimension (DESIGN 6/C02)',
    'C18': 'pure table lookup over 65536 x 24 inputs: no concurrency, time, I/O or fault (DESIGN 6/C18)',
}
WIP = 'check under construction in this session (not yet claimed)'

CHECKS = {
    'C03': dict(cat='fault_enumeration', ref='6/C03',
                technique='deterministic simulation: enumerated TCP segmentations of scripted conversations on the real provider loop, differential oracle',
                text='Real DULServiceProvider run loop on a simulated socket; for each conversation of a corpus every single cut offset of every peer turn (plus dribble, all-at-once, seeded pairs/k-cuts, prebuffered first segment, short reads, FIN right behind the last byte) must give the same user indications, the same PDUs on the wire and the same final state as one-PDU-per-segment delivery. Thorough adds every pair of cut offsets for the short turns. Also compared after every completely delivered turn: the number of indications and answers so far (a delivery must not leave received PDUs waiting for bytes that are not part of them); corpus includes an unexpected PDU with the peer\'s A-ABORT right behind it and a turn of exactly the provider\'s receive size.',
                note='differential: a framing error that is independent of segmentation is C05/C12 territory; simulated TCP is a reliable ordered byte stream; atomicity between seams'),
    'C04': dict(cat='fault_enumeration', ref='6/C04',
                technique='exhaustive cell enumeration against an executable transcription of PS3.8 Table 9-10 (real StateMachine.action on a real provider parked by the simulator)',
                text='All 247 (state, event) cells x both roles x primitive variants x ARTIM prior state, entered by state assignment after a real role-establishing prefix and additionally by real histories through the running loop; wire bytes (reference-parsed), user indications, socket close, ARTIM start/stop/restart and next state compared with R-fsm; undefined cells must have no effect. Cells are also evaluated with a DIMSE message half received (histories Sta6p/Sta7p, variant pdata-rest). Every cell runs with bytes of a following PDU already in the receive buffer: an action that does not close the connection must leave them alone. Sta13 is also reached through the provider\'s own abort actions.',
                note='R-fsm is my transcription of the table (123 defined cells asserted); observation reads current_state, timer._start_time, dul_socket, to_service_user'),
    'C05': dict(cat='exploration', ref='6/C05',
                technique='deterministic simulation: event histories (exhaustive to a depth, seeded walks, concurrent bursts) on the real provider loop under virtual time, step-wise refinement of a reference protocol machine',
                text='Histories over peer PDUs of every type, partial/continued P-DATA, unrecognised PDUs, FIN, ARTIM expiry, time advance, every legal user primitive and generator primitives, both roles: after every event the wire, indications, state, socket and ARTIM flag must equal R-fsm; concurrent bursts must match some serialisation; at the end peer-close implies idle and closed within ARTIM+1 s. Further families: PDU bursts with the FIN right behind them; a reset placed exactly before the first write of every writing event (reference = Evt17 in the pre-state); bursts (+FIN) already waiting in the socket when the provider thread starts.',
                note='quiescence = 3 select periods without change; deadlines not approached closer than 1 s; sampling beyond the exhaustive depth'),
    'C12': dict(cat='exploration', ref='6/C12',
                technique='deterministic simulation with fault injection: structure-aware PDU mutation and random bytes fed to the real provider loop in six protocol states under seeded segmentation, then FIN/RST/silence; crash/hang/orderly-end oracle plus two-branch reaction oracle against R-fsm',
                text='For Sta2, Sta3, Sta5, Sta6 (both roles), Sta7, Sta8, Sta13 (two routes): every mutation operator instance of DESIGN App. C on rich A-ASSOCIATE-RQ/AC, RJ, P-DATA (echo, multi-PDV store), release and abort PDUs (thorough; seeded third in quick), DIMSE-level garbage, seeded random bytes and bit flips; the provider task must not die, must reach idle with the socket closed within ARTIM+1 s of FIN/RST (or of silence where ARTIM is armed), must have told the user, must emit only well-formed PDUs, and its reaction to an unrecognised/malformed PDU must follow the Evt19 row (or, for a merely malformed one, its own type row). Further cases: FIN immediately behind the last malformed byte; floods of 70/200 pipelined requests to a user that does not consume, then junk (bounded queues are modelled). States include the four release-collision states Sta9-Sta12; a peer-announced Maximum Length of 1..6 followed by a local send (real association layer, both roles).',
                note='R-codec decides unrecognised/malformed/valid; reaction to valid PDUs and to DIMSE-level garbage is not judged beyond crash/hang/orderly end; sampling'),
    'C13': dict(cat='fault_enumeration', ref='6/C13',
                technique='deterministic simulation with fault injection: disconnection (FIN/RST/silence) enumerated after every byte prefix of every scripted conversation, RST placed exactly before each write, connect failures, stop requests at every quiescent point, provider stalls; bounded-liveness oracle in virtual time',
                text='16 conversations (echo, multi-fragment store, pipelining, release and abort from either side, reject, unknown PDU, both release collisions, find; both roles) on the real provider loop: the peer stream is cut after every byte prefix and ended by FIN, RST or silence (thorough: all three at every offset), the connection is reset exactly before the k-th PDU write, connect() is refused or times out, kill() is requested at every quiescent point, the provider thread is stalled; within ARTIM+1 s of virtual time the provider must be idle with the connection closed, the user told, and kill() must return with the loop finished. Further endings: partial PDUs dribbling in (header, part of the body, silence), a peer that keeps sending junk every 3 s in Sta13, and association-level scenarios on real AEs (abort/release/kill against silent peers, a source-file read error while the provider thread is fragmenting) after which leaving the association must return and no connection may stay open. Resets right behind every complete PDU (data still readable, connection already gone).',
                note='silence must only end the provider where ARTIM is armed; Association.kill/release/abort on real AEs are exercised by the P2 workloads (C14/C15/C20); TCP model: FIN/RST ordering only'),
    'C06': dict(cat='exploration', ref='6/C06',
                technique='deterministic simulation: real Association.send -> provider thread -> simulated wire under seeded schedules while the caller keeps sending/mutating; wire monitor (reference parser and reassembler) against a send-time snapshot; size grid sampled',
                text='A real ClientAE sends seeded lists of messages (all 23 classes, data set absent/bytes/file, sizes at k*(max-6)+{-2..2}, context ids 1..255, the same object changed and re-sent) to a scripted acceptor for maxima 7..65536 imposed by either side; every P-DATA-TF the provider thread writes is parsed by R-codec and checked for the length bound, non-empty PDVs, context id, command-before-data order, control bits, exactly one last fragment per stream, and byte-exact equality of command set and data set with the snapshot taken when send() was called. Thorough sweeps max 7..40 x length 0..3*(max-6)+2 through the stack. 300 cases run two caller threads on ONE association with line-level pre-emption in send/encode (sends matched to wire messages by exact content).',
                note='the fragment arithmetic itself is a pure function: its input grid is sampled, not decided; snapshot taken by wrapping Association.send from outside'),
    'C08': dict(cat='exploration', ref='6/C08',
                technique='deterministic simulation: same send path as C06 with messages re-sent from one object under seeded schedules; independent implicit-VR-LE command-group reader on every transmitted command stream',
                text='Every command stream that reaches the simulated wire must have (0000,0000) first and equal to the number of bytes that follow, strictly ascending tags, even lengths, Command Field equal to the class code, Command Data Set Type = 0101H iff no data fragment follows, and element values equal to the send-time snapshot - for all 23 classes, seeded field values (UID lengths 1..64, 16-bit boundaries, optional fields empty) and for the same object sent up to three times with changed fields. A hot family runs 2-3 associations at once with pre-emption inside set_length/encode_element.',
                note='field-value grid sampled; the schedule-dependent part (encoding happens in another thread than send()) is what the simulator controls'),
    'C10': dict(cat='exploration', ref='6/C10',
                technique='deterministic simulation: both roles of the real association layer against scripted peers over the full boundary grid of (configured, announced) maxima, with a bounded-virtual-time delivery (liveness) oracle in both directions',
                text='All 100 pairs over {0,7,8,127,128,1024,16384,65536,2^31,2^32-1} x both roles: the Maximum Length the library announces is its configured value or less (0 only if configured 0), no P-DATA-TF it sends exceeds the peer\'s announced value unless that is 0, every message it sends (sizes below, at and three times the fragment size) is completely received by the peer and every message the peer sends within the announced limit is delivered to the application. Half of the messages are file objects positioned behind a header. Data sizes also chosen so that command set + data set land just below, at and above one PDU.',
                note='recv(n) of the simulated socket does not model allocating n bytes; data sizes capped at 6000 bytes'),
    'C07': dict(cat='exploration', ref='6/C07',
                technique='deterministic simulation with fault injection: reference-fragmented messages regrouped into PDUs by every composition, delivered over seeded segmentations to the real provider loop; step-wise oracle after every PDU against a reference reassembler; disk errors injected on the file-backed path (SimFS)',
                text='For all 23 command-field codes, data set absent/present, the real provider in Sta6/Sta7 receives the fragment list under every composition into P-DATA-TF PDUs (exhaustive for lists of <= 7 / 10 fragments, seeded beyond), in memory or file-backed through the real AEBase.get_file/write_meta on a simulated file system, for three transfer syntaxes. After every PDU: nothing delivered and decoder receiving before the designated PDV; exactly one message of the right class, context id, command set and data bytes at it; the file is a Part-10 file (preamble, meta header naming the negotiated transfer syntax and the command\'s SOP class/instance, then exactly the transmitted bytes, positioned at the start). With ENOSPC/EIO at the n-th write no message is delivered, the association ends orderly and the file is closed. A file-backed message may be followed by an in-memory one on the same association (no decoder state may survive a completed message). Duplex cases: the local user hands over outgoing generator messages right before each incoming PDU; they must reach the wire intact while the incoming message is reassembled.',
                note='one message at a time; R-dimse completion rule; meta header read by a purpose-written explicit-VR reader, not pydicom'),
    'C09': dict(cat='exploration', ref='6/C09',
                technique='deterministic simulation: real AE/AssociationAcceptor/provider threads against a scripted requestor; small universe of requests x configurations enumerated, each answered A-ASSOCIATE-AC parsed by the reference codec and every context probed with a message',
                text='Every subset of served SOP classes x every subset of 4 transfer syntaxes x requests with 0..3 contexts and every ordered list of 1..3 proposed transfer syntaxes (0 and 1 contexts exhaustively, 2 over a reduced set in thorough; seeded requests up to 128 contexts): one result item per proposed context, same ids and order; accepted iff served and some proposed syntax supported; returned syntax proposed and supported; AE titles and application context repeated; a probe on each accepted context reaches the service with exactly that (id, SOP class, syntax) and is answered on it; a probe on a refused or unproposed id reaches no service. Every case re-proposes an accepted id for an unserved class in a second association and probes it. Hot family: 2-3 requestors negotiate with a fresh entity at the same instant under line-level pre-emption in every function of the entity/association modules.',
                note='result code of refused contexts only required non-zero; how the association ends after a message on a refused id is not judged'),
    'C11': dict(cat='exploration', ref='6/C11',
                technique='deterministic simulation: real ClientAE/AE + AssociationRequester + provider thread against a scripted acceptor; configurations and reply patterns enumerated (small) and seeded (large); A-ASSOCIATE-RQ parsed by the reference codec, get_scu probed for every class',
                text='Sequences of 1..4 add_scu/add_scp calls with 0..140 SOP classes (overlapping, totals around and beyond 128), 1..3 transfer syntaxes, maxima incl. 0: the request on the wire names remote/local AE titles, the DICOM application context, the configured maximum length, each configured class exactly once under distinct odd ids 1..255 with exactly the configured syntaxes; after a reply with any mix of results 0..4 and syntax choices, get_scu succeeds exactly for classes with an accepted context (bound to that id and the syntax the peer chose) and raises ClassNotSupportedError otherwise; a configuration that does not fit 128 contexts fails with a library error before a connection is opened. Classes repeated inside one list, and reconfiguration (add_scu/add_scp) between two associations of the same AE, are covered. The second association is answered the other way round (accepted before = refused now) and every class is looked up again.',
                note='a service is expected only for classes configured with add_scu; replies that accept ids never proposed are out of scope'),
    'C14': dict(cat='exploration', ref='6/C14',
                technique='deterministic simulation with fault injection: real AE server and real ClientAE (all their threads) on the simulated transport with a wire tap; scenarios x values x conversation points under seeded schedules; RST and stall faults in a separate relaxed configuration',
                text='Reject with all 60 standard (result, source, reason) triples and seeded others: the RJ on the wire and the AssociationRejectedError at the requestor carry exactly the application\'s values and no service runs, even when a scripted requestor keeps sending after the refusal; abort by requestor or acceptor with reasons 0..255 before, between and during a multi-fragment transfer (up to 60 fragments still queued) reaches the wire with the right source/reason and surfaces as AssociationAbortedError with the same fields; release surfaces as AssociationReleasedError and is answered; leaving request_association normally releases (no A-ABORT), leaving it by an exception aborts (no A-RELEASE-RQ) and re-raises the user\'s exception. Also: the peer answers and aborts in one write and closes; leaving the context manager after a peer-requested release must put an A-ABORT or A-RELEASE-RP on the wire. Also: the peer never answers the A-RELEASE-RQ of a normal exit (the failing release must end in an A-ABORT, nothing left running); responses still in flight at a normal exit.',
                note='receiving-side exceptions observed by wrapping Association._get_dul_message; under RST only absence of wrong values is required; stalls below kill()\'s grace period'),
    'C17': dict(cat='exploration', ref='6/C17',
                technique='deterministic simulation: the real service providers on a real AE (plus their sub-associations on the simulated listener table) against scripted users; reference command reader on every response',
                text='verification_scp, storage_scp (file-backed), qr_find_scp, qr_move_scp (with a real sub-association to a scripted destination), StorageCommitment.n_action (+ the N-EVENT-REPORT it sends on a second association, success-only/failure-only/mixed), StorageCommitment.n_event_report and the C-STORE responses of qr_get_scu: for message ids {0,1,255,256,32767,32768,65535,+seeded}, several context ids, seeded UIDs and handler outcomes (success, warning, failure, EventHandlingError where documented) every response is on the request\'s context, of type request|0x8000, repeats message id, SOP class and instance, carries the handler\'s (or the documented failure) status, and every request is answered within bounded virtual time. Concurrent associations and a second request on another context id negotiated for the same class are covered. The concurrent family runs under line-level pre-emption with parking inside the encoding functions.',
                note='data sets built with pydicom; EventHandlingError injected only where a failure status is documented'),
    'C15': dict(cat='exploration', ref='6/C15',
                technique='deterministic simulation with fault injection: two or more real application entities (client and server, every handler and provider thread) on the simulated transport and file system under seeded schedules; byte-level end-to-end oracle and an append-only directory model; disk-error, RST and stall faults in a relaxed configuration',
                text='Seeded data sets (nested sequences, odd-length values, sizes up to hundreds of fragments, incl. exact multiples of the fragment payload) in three transfer syntaxes, asymmetric maxima, sent from a Dataset or a Part-10 file to file-backed storage_scp, to StorageAE directory storage or to an in-memory SCP, 1..3 concurrent associations with 1..3 stores each, also of the SAME SOP instance UID: the handler receives exactly the sent bytes tagged with the sent class/instance/syntax (file meta header checked by an own reader), the sender gets the handler\'s status (0xC000 for EventHandlingError), every acknowledged store has its own intact file and no existing file is ever reopened for truncation. Concurrent clients negotiate different transfer syntaxes. Slow-receiver family: 2-32 KiB of buffering between the applications, storing side stalled for 6-45 s in mid-transfer (flow control; nothing may be given up). Hot family with line-level pre-emption in the file-building functions.',
                note='pydicom trusted to build data sets; under injected ENOSPC/EIO/RST a store may fail, an acknowledged one must still be right'),
    'C16': dict(cat='exploration', ref='6/C16',
                technique='deterministic simulation: real find provider and user (and the c_find wrapper) with all their threads under seeded schedules incl. user-thread-ahead bias and stalls; produced-sequence == received-sequence oracle',
                text='Match sequences of length 0..8 with seeded data sets (incl. exact multiples of the fragment payload) and any mix of FF00/FF01, three transfer syntaxes, maxima down to 40, instant or delayed handler, patient/study root, worklist and c_find variants, final statuses success (real SCP) and failure/cancel/warning (scripted SCP): the user receives exactly the produced (data set, status) pairs in order plus one final non-pending response and then stops; the query reaches the handler unchanged. A hot family runs concurrent query users with line-level pre-emption inside dsutils. A quarter of the cases store an instance (file-backed) on the same association before the query.',
                note='data sets compared by re-encoding with pydicom; stalls below library timeouts'),
    'C19': dict(cat='exploration', ref='6/C19',
                technique='deterministic simulation: real C-GET user against a scripted provider, and a three-node C-MOVE (scripted user, real provider, real destination AE over a second simulated association) under seeded schedules and stalls; exactly-once/order/counter oracle on the wire and at the destination',
                text='0..6 sub-operations with success/warning/failure outcomes: the C-GET user answers every C-STORE request once, on its context, with its message id, instance and the handler\'s status, yields each instance once in order (in memory or file-backed) and stops at the final response whatever non-pending status concludes it; the C-MOVE provider stores every supplied instance at the designated destination exactly once and in order, its k-th pending response reports k performed and n-k remaining with true failed/warning counts, and exactly one final response concludes the operation, also for n = 0. Also: progress reports with zero remaining before the final response, a second retrieve on the same association, a destination that never answers the sub-association\'s release, and a destination unknown to the application (default on_receive_move: one final response, no sub-association).',
                note='"performed" accepted as the completed counter or completed+failed+warning; one transfer syntax per C-GET association'),
    'C20': dict(cat='exploration', ref='6/C20',
                technique='deterministic simulation with fault injection: 2..8 concurrent client associations (own or shared ClientAE) against one server AE, all threads under seeded uniform / round-robin / starvation schedules with line-level pre-emption (sys.settrace) inside the shared-state functions; per-client outcome == outcome alone',
                text='Each client has its own transfer syntax, maximum length, SOP-class subset and order (so context ids mean different things in different associations), operation mix (echo, store in-memory or file-backed, find, c_find wrapper) and data; a seeded subset aborts, raises or is reset in mid-conversation. Every undisturbed client gets exactly its own results and statuses, its requests are served with its own negotiated context (class, syntax, file meta), nothing reaches a handler that nobody sent or twice, message ids from _new_msg_id are unique within a thread, user exceptions are preserved. Clients also run storage-commitment requests (each report pairs its Transaction UID with its own instance list); a configurator thread reconfigures the shared ClientAE between gated rounds; a hot family concentrates pre-emption in the shared-state functions.',
                note='reference outcome computed from what each client sent; pre-emption at source-line granularity of the listed functions'),
}


def main():
    props = [json.loads(l) for l in open(os.path.join(VERIF, 'properties.jsonl'))]
    hooks_commits = []
    m = {
        'version': 1,
        'setup_cmd': "/venv/bin/python -c \"import sys; sys.path.insert(0,'/repo'); sys.path.insert(0,'/verif'); import pydicom, six, pynetdicom2, simdicom.sched, simdicom.net, simdicom.refcodec, simdicom.runner; print('setup ok')\"",
        'hooks': {
            'guard': 'PYNETDICOM2_VERIF',
            'enable': 'no hook exists in /repo: every seam is a module-level name rebound at run time from /verif (simdicom/seams.py); the guard variable is reserved and set by the checks',
            'baseline_off_cmd': 'cd /repo && /venv/bin/python -m pytest -ra -q -p no:cacheprovider --timeout=900 --continue-on-collection-errors',
            'source_commits': hooks_commits,
            'add_only': True,
        },
        'engines': [{
            'name': 'simdicom', 'path': '/verif/simdicom', 'serves_properties': sorted(CHECKS),
            'kind_free_text': 'deterministic simulator: the real library threads under a baton scheduler, virtual clock, simulated TCP/select/queues/files, seeded decisions, fault injection, reference codec / protocol-machine oracles'}],
        'checks': [],
        'notes': 'see DESIGN.md; exit codes of ./check: 0 held (KNOWN-FINDING lines allowed), 1 VIOLATION, 2 harness error',
        'not_applicable': [],
    }
    for p in props:
        pid = p['id']
        if pid in CHECKS:
            c = CHECKS[pid]
            m['checks'].append({
                'property_id': pid,
                'quick_cmd': './check %s --tier quick' % pid,
                'thorough_cmd': './check %s --tier thorough' % pid,
                'evidence_file': '/verif/evidence/%s.json' % pid,
                'replay_cmd_template': './check %s --replay {path}' % pid,
                'engine': 'simdicom',
                'level_claimed': {'category': c['cat'], 'text': c['text'],
                                  'design_ref': 'DESIGN.md ' + c['ref']},
                'level_note': c['note'],
                'technique': c['technique'],
            })
        else:
            m['not_applicable'].append({'property_id': pid, 'reason': NA.get(pid, WIP)})
    with open(os.path.join(VERIF, 'MANIFEST.json'), 'w') as f:
        json.dump(m, f, indent=1)
    try:
        subprocess.run(['python3-vt', '-c', "import json,jsonschema;jsonschema.validate(json.load(open('%s/MANIFEST.json')),json.load(open('/root/.vp/MANIFEST.schema.json')));print('manifest valid')" % VERIF], check=True)
    except Exception as e:  # noqa
        print('validation skipped/failed:', e)


if __name__ == '__main__':
    main()
