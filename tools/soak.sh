#!/bin/bash
# soak.sh <tier> <seed>...   -- run every check at the given seeds; prints one line per run and any
# VIOLATION / HARNESS lines.  No evidence is written (this is for finding false alarms, not evidence).
tier=$1; shift
cd "$(dirname "$0")/.."
for seed in "$@"; do
  for c in C03 C04 C05 C06 C07 C08 C09 C10 C11 C12 C13 C14 C15 C16 C17 C19 C20; do
    out=$(VERIF_SEED=$seed timeout 3000 ./check $c --tier $tier --no-evidence 2>&1)
    rc=$?
    echo "seed=$seed rc=$rc $(echo "$out" | tail -1)"
    if [ $rc -ne 0 ]; then echo "$out" | grep -A12 "^signature\|HARNESS\|UNREPRODUCED" | head -60; fi
  done
done
