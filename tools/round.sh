#!/bin/bash
# round.sh <Cxx> <letter> <evalwt-number> : verify the sub-agent's change for Cxx and evaluate it
# against the quick tier in scratch worktree /tmp/evalwt/<n> (never in /repo).
cd "$(dirname "$0")/.."
id=$1; name=$(echo $id | tr A-Z a-z)-$2; wt=/tmp/evalwt/$3
tools/seeded.py verify $id --name $name 2>&1 | tail -4
tools/seeded.py eval $name --repo $wt 2>&1 | tail -6
