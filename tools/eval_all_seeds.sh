#!/bin/bash
# Re-evaluate every seeded change against the quick tier of the property it targets.
cd "$(dirname "$0")/.."
for n in $(ls seeded); do
  timeout 1800 tools/seeded.py eval $n 2>&1 | grep "CAUGHT\|MISSED\|apply" | sed "s/^/$n: /"
done
