"""Process-level set-up: PYTHONHASHSEED pinning, import of the library from /repo."""
import os
import sys

REPO = os.environ.get('VERIF_REPO', '/repo')
VERIF = os.path.dirname(os.path.dirname(os.path.abspath(__file__)))


def reexec_pinned():
    """Re-exec with PYTHONHASHSEED=0: the library iterates a frozenset of transfer syntaxes to
    build its proposal, so replay needs a pinned string hash."""
    if os.environ.get('PYTHONHASHSEED') != '0':
        env = dict(os.environ)
        env['PYTHONHASHSEED'] = '0'
        os.execve(sys.executable, [sys.executable] + sys.argv, env)


def setup():
    repo = os.path.realpath(REPO)
    if sys.path[0] != repo:
        sys.path.insert(0, repo)
    if VERIF not in sys.path:
        sys.path.insert(1, VERIF)
    # the hook guard is reserved; no hook exists in /repo (see MANIFEST.hooks)
    os.environ.setdefault('PYNETDICOM2_VERIF', '1')
    import warnings
    warnings.filterwarnings('ignore')
    import pynetdicom2
    f = os.path.realpath(pynetdicom2.__file__)
    if not f.startswith(repo + os.sep):
        raise RuntimeError('pynetdicom2 imported from %s, expected under %s' % (f, repo))
    return pynetdicom2
