"""simdicom -- deterministic simulation with fault injection for pynetdicom2.

See /verif/DESIGN.md.  Nothing in this package is imported by the library; the
library (from /repo) is imported by the workloads after `bootstrap.setup()`.
"""
