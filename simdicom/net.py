"""Simulated TCP: SimSocket pairs, delivery actors, listener table, select/time/queue/event seams."""
import errno
import queue as _realqueue
import socket as _realsocket

from .sched import Actor, _never

AF_INET = _realsocket.AF_INET
SOCK_STREAM = _realsocket.SOCK_STREAM
SHUT_RD, SHUT_WR, SHUT_RDWR = 0, 1, 2


class Pipe(object):
    """One direction of a connection."""
    __slots__ = ('segs', 'rcvbuf', 'fin_queued', 'fin', 'rst', 'auto', 'latency', 'name',
                 'total_written', 'total_delivered', 'hold', 'boundaries', 'rst_after_segs',
                 'capacity')

    def __init__(self, name):
        self.name = name
        self.segs = []          # [ready_at, bytearray]  written, not yet delivered
        self.rcvbuf = bytearray()
        self.fin_queued = False  # FIN after everything in segs
        self.fin = False         # FIN visible to the reader (after rcvbuf)
        self.rst = False
        self.auto = False        # True: writes land in rcvbuf at once (no network actor)
        self.latency = 0.0
        self.total_written = 0
        self.total_delivered = 0
        self.hold = False        # True: network actor never delivers (peer->provider under driver control)
        self.boundaries = []     # absolute stream offsets where a write ended (PDU-ish boundaries)
        self.rst_after_segs = False
        # bytes the two kernels hold between writer and reader (send buffer + in flight +
        # receive buffer); None = unlimited.  A writer that finds it full blocks (flow control).
        self.capacity = None

    def room(self):
        if self.capacity is None:
            return 1 << 40
        return self.capacity - len(self.rcvbuf) - sum(len(s_[1]) for s_ in self.segs)

    def inflight(self):
        return sum(len(s[1]) for s in self.segs)


class SimSocket(object):
    def __init__(self, net, name=None):
        self.net = net
        self.sim = net.sim
        self.name = name or ('sock%d' % len(net.sockets))
        net.sockets.append(self)
        self.peer = None
        self.tx = None
        self.rx = None
        self.closed = False
        self.shut_wr = False
        self.timeout = getattr(net, 'default_timeout', None)   # socket.setdefaulttimeout()
        self.connected = False
        self.addr = None
        self.short_reads = False
        self.on_send = None      # monitor hook: fn(sock, bytes)

    # -- plumbing used by socketserver
    def fileno(self):
        return 1000 + self.net.sockets.index(self)

    def settimeout(self, t):
        if t is not None and t < 0:
            raise ValueError('Timeout value out of range')
        self.timeout = t

    def gettimeout(self):
        return self.timeout

    def setblocking(self, flag):
        self.timeout = None if flag else 0.0

    def setsockopt(self, *a):
        pass

    def getsockopt(self, *a):
        return 0

    def getpeername(self):
        if not self.connected:
            raise OSError(errno.ENOTCONN, 'not connected')
        return self.addr or ('sim', 0)

    def getsockname(self):
        return ('sim', 0)

    def makefile(self, mode='rb', bufsize=-1):
        return _SockFile(self)

    def __enter__(self):
        return self

    def __exit__(self, *a):
        self.close()

    # -- connect
    def connect(self, addr):
        self.net.connect(self, addr)

    # -- data
    def sendall(self, data):
        sim = self.sim
        if self.closed:
            raise OSError(errno.EBADF, 'Bad file descriptor')
        if not self.connected:
            raise OSError(errno.ENOTCONN, 'not connected')
        sim.yield_('sendall')
        if self.closed:
            raise OSError(errno.EBADF, 'Bad file descriptor')
        if self.shut_wr:
            raise BrokenPipeError(errno.EPIPE, 'Broken pipe')
        if self.rx.rst:
            raise ConnectionResetError(errno.ECONNRESET, 'Connection reset by peer')
        data = bytes(data)
        sim.log('send', self.name, len(data), _h(data))
        peer = self.peer
        if peer.closed:
            # first write after the peer closed: accepted by the kernel, answered by RST.
            # Linux semantics: data that was received before the RST stays readable, the
            # reset is reported once the receive queue is empty (see recv).
            if self.rx.segs:
                # what the peer sent before closing is still in flight and arrives first
                self.rx.rst_after_segs = True
            else:
                self.rx.rst = True
            sim.bump('net.write_after_peer_close')
            return None
        if self.on_send is not None:
            self.on_send(self, data)
        tx = self.tx
        if tx.capacity is not None and len(data) > tx.room():
            return self._send_throttled(data)
        tx.total_written += len(data)
        tx.boundaries.append(tx.total_written)
        if tx.auto:
            tx.rcvbuf += data
            tx.total_delivered += len(data)
        else:
            tx.segs.append([sim.now + tx.latency, bytearray(data)])
        return None

    def _send_throttled(self, data):
        """The peer is not reading fast enough: hand over what fits, wait for room, repeat.  As
        in CPython, the socket timeout bounds the WHOLE sendall()."""
        sim = self.sim
        tx = self.tx
        deadline = None if self.timeout is None else sim.now + self.timeout
        pos = 0
        sim.bump('net.send_blocked_on_full_buffers')
        while pos < len(data):
            room = tx.room()
            if room <= 0:
                left = None if deadline is None else max(0.0, deadline - sim.now)
                ok = sim.wait(lambda: tx.room() > 0 or self.rx.rst or self.closed, left,
                              'sendall-full')
                if self.closed:
                    raise OSError(errno.EBADF, 'Bad file descriptor')
                if self.rx.rst:
                    raise ConnectionResetError(errno.ECONNRESET, 'Connection reset by peer')
                if not ok and tx.room() <= 0:
                    sim.bump('net.send_timeout')
                    raise _realsocket.timeout('timed out')
                continue
            part = data[pos:pos + room]
            pos += len(part)
            tx.total_written += len(part)
            if tx.auto:
                tx.rcvbuf += part
                tx.total_delivered += len(part)
            else:
                tx.segs.append([sim.now + tx.latency, bytearray(part)])
        tx.boundaries.append(tx.total_written)
        return None

    def send(self, data):
        """One write: everything on a blocking socket; on a socket with a time-out (which the
        kernel sees as non-blocking) only what the send buffer has room for right now - the
        caller learns how much from the return value."""
        data = bytes(data)
        tx = self.tx
        if self.timeout is None or tx is None or tx.capacity is None or self.closed or \
                not self.connected or self.shut_wr or self.rx.rst or self.peer.closed or \
                len(data) <= tx.room():
            self.sendall(data)
            return len(data)
        sim = self.sim
        sim.yield_('send')
        if tx.room() <= 0:
            ok = sim.wait(lambda: tx.room() > 0 or self.rx.rst or self.closed, self.timeout,
                          'send-full')
            if self.closed:
                raise OSError(errno.EBADF, 'Bad file descriptor')
            if self.rx.rst:
                raise ConnectionResetError(errno.ECONNRESET, 'Connection reset by peer')
            if not ok and tx.room() <= 0:
                sim.bump('net.send_timeout')
                raise _realsocket.timeout('timed out')
        part = data[:max(0, tx.room())]
        sim.log('send-partial', self.name, len(part), len(data))
        sim.bump('net.partial_write')
        if self.on_send is not None:
            self.on_send(self, part)
        tx.total_written += len(part)
        if tx.auto:
            tx.rcvbuf += part
            tx.total_delivered += len(part)
        else:
            tx.segs.append([sim.now + tx.latency, bytearray(part)])
        tx.boundaries.append(tx.total_written)
        return len(part)

    def sendmsg(self, buffers, ancdata=(), flags=0, address=None):
        return self.send(b''.join(bytes(b) for b in buffers))

    def _readable(self):
        rx = self.rx
        return bool(rx.rcvbuf) or rx.fin or rx.rst or self.closed

    def recv(self, n, flags=0):
        if self.closed:
            raise OSError(errno.EBADF, 'Bad file descriptor')
        if not self.connected:
            raise OSError(errno.ENOTCONN, 'not connected')
        if flags & _realsocket.MSG_WAITALL and n > 0:
            rx0 = self.rx
            ok = self.sim.wait(lambda: len(rx0.rcvbuf) >= n or rx0.fin or rx0.rst or self.closed,
                               self.timeout, 'recv-waitall')
        else:
            ok = self.sim.wait(self._readable, self.timeout, 'recv')
        if self.closed:
            raise OSError(errno.EBADF, 'Bad file descriptor')
        rx = self.rx
        if rx.rst and not rx.rcvbuf:
            raise ConnectionResetError(errno.ECONNRESET, 'Connection reset by peer')
        if rx.rcvbuf:
            k = min(n, len(rx.rcvbuf))
            if k <= 0:
                return b''
            if flags & _realsocket.MSG_PEEK:
                return bytes(rx.rcvbuf[:k])      # looked at, not consumed
            if self.short_reads and k > 1 and self.sim.in_task():
                if self.sim.chance('network', 0.3, 'short'):
                    k = 1 + self.sim.choose('network', k, 'shortk')
                    k = min(k, len(rx.rcvbuf))
                    self.sim.bump('net.short_read')
            data = bytes(rx.rcvbuf[:k])
            del rx.rcvbuf[:k]
            self.sim.log('recv', self.name, len(data), _h(data))
            return data
        if rx.fin:
            self.sim.log('recv', self.name, 'EOF')
            return b''
        if not ok:
            raise _realsocket.timeout('timed out')
        return b''

    def shutdown(self, how):
        if self.closed:
            raise OSError(errno.EBADF, 'Bad file descriptor')
        if not self.connected:
            raise OSError(errno.ENOTCONN, 'not connected')
        if self.rx.rst:
            # the connection was reset by the peer (TCP state CLOSE): Linux answers ENOTCONN,
            # whether or not data received before the reset is still unread
            raise OSError(errno.ENOTCONN, 'Transport endpoint is not connected')
        if how in (SHUT_WR, SHUT_RDWR) and not self.shut_wr:
            self.shut_wr = True
            self._queue_fin()

    def _queue_fin(self):
        tx = self.tx
        if tx is None:
            return
        if tx.auto:
            tx.fin = True
        else:
            tx.fin_queued = True

    def close(self):
        if self.closed:
            return
        self.closed = True
        self.sim.log('close', self.name)
        if not self.connected:
            return
        rx, tx = self.rx, self.tx
        if rx.rcvbuf and not rx.rst:
            # closing with unread data: TCP answers with RST instead of FIN.  What this side
            # had sent before stays readable at the peer (Linux reports the reset once the
            # receive queue is empty); writes still in flight arrive before the reset.
            if tx.segs:
                tx.rst_after_segs = True
            else:
                tx.rst = True
            self.sim.bump('net.rst_on_close_unread')
        elif not self.shut_wr:
            self.shut_wr = True
            self._queue_fin()

    def reset(self):
        """Fault: the connection is reset (both directions see RST)."""
        for p in (self.rx, self.tx):
            p.rst = True
            p.segs = []
            p.rcvbuf.clear()

    def __repr__(self):
        return '<SimSocket %s%s>' % (self.name, ' closed' if self.closed else '')


class _SockFile(object):
    def __init__(self, sock):
        self.sock = sock
        self.closed = False

    def flush(self):
        pass

    def close(self):
        self.closed = True

    def write(self, b):
        self.sock.sendall(b)
        return len(b)

    def read(self, n=-1):
        return self.sock.recv(n if n > 0 else 65536)


class Delivery(Actor):
    """Network actor for one direction: moves bytes inflight -> rcvbuf in seeded pieces."""

    def __init__(self, pipe, mode='random'):
        self.pipe = pipe
        self.name = 'net:' + pipe.name
        self.mode = mode

    def ready(self, now):
        p = self.pipe
        if p.hold or p.rst:
            return False
        if p.segs:
            return p.segs[0][0] <= now
        return p.fin_queued and not p.fin

    def next_time(self):
        p = self.pipe
        if p.hold or p.rst or not p.segs:
            return None
        return p.segs[0][0]

    def fire(self, sim):
        p = self.pipe
        if not p.segs:
            p.fin = True
            p.fin_queued = False
            sim.bump('net.fin_delivered')
            return
        seg = p.segs[0][1]
        avail = len(seg)
        # options: 0 = whole first write (plus coalesce following ready writes), 1 = one byte,
        #          2 = header boundary (6 bytes or fewer), 3 = all but one byte, 4 = uniform
        if self.mode == 'whole':
            opt = 0
        else:
            opt = sim.choose('network', 5, 'dk')
        if opt == 0:
            k = avail
            coalesce = True
        elif opt == 1:
            k = 1
            coalesce = False
        elif opt == 2:
            k = min(avail, 1 + sim.choose('network', 6, 'hdr'))
            coalesce = False
        elif opt == 3:
            k = max(1, avail - 1)
            coalesce = False
        else:
            k = 1 + sim.choose('network', avail, 'uk')
            coalesce = False
        if k < avail:
            sim.bump('net.split_delivery')
        p.rcvbuf += seg[:k]
        p.total_delivered += k
        del seg[:k]
        if not seg:
            p.segs.pop(0)
            if coalesce and self.mode != 'whole':
                while p.segs and p.segs[0][0] <= sim.now and sim.chance('network', 0.3, 'coal'):
                    s2 = p.segs.pop(0)[1]
                    p.rcvbuf += s2
                    p.total_delivered += len(s2)
                    sim.bump('net.coalesced')
        if not p.segs and p.rst_after_segs:
            p.rst = True
            p.rst_after_segs = False
            return
        if not p.segs and p.fin_queued and sim.chance('network', 0.5, 'finwith'):
            p.fin = True
            p.fin_queued = False
            sim.bump('net.fin_delivered')


class Net(object):
    """Listener table + socket factory; also the module-shaped namespace objects the
    library modules get instead of `socket`, `select`, `time`, `queue`, `threading`."""

    def __init__(self, sim):
        self.sim = sim
        self.sockets = []
        self.listeners = {}
        self.delivery_mode = 'random'
        self.latency = 0.0
        self.connect_fault = None    # None | 'refused' | 'timeout' | 'netunreach' | 'hostunreach' | 'addrnotavail' | 'gaierror' | 'emfile'
        self.on_connect = None       # observer fn(client_sock, server_sock, addr)

    def socket(self, family=AF_INET, type_=SOCK_STREAM, proto=0):
        return SimSocket(self)

    def pair(self, a_name, b_name, auto_ab=False, auto_ba=False, hold_ab=False, hold_ba=False):
        a = SimSocket(self, a_name)
        b = SimSocket(self, b_name)
        self._link(a, b, auto_ab, auto_ba, hold_ab, hold_ba)
        return a, b

    def _link(self, a, b, auto_ab=False, auto_ba=False, hold_ab=False, hold_ba=False):
        ab = Pipe('%s>%s' % (a.name, b.name))
        ba = Pipe('%s>%s' % (b.name, a.name))
        ab.auto, ba.auto = auto_ab, auto_ba
        ab.hold, ba.hold = hold_ab, hold_ba
        ab.latency = ba.latency = self.latency
        ab.capacity = ba.capacity = getattr(self, 'capacity', None)
        a.tx, a.rx = ab, ba
        b.tx, b.rx = ba, ab
        a.peer, b.peer = b, a
        a.connected = b.connected = True
        if not auto_ab:
            self.sim.actors.append(Delivery(ab, self.delivery_mode))
        if not auto_ba:
            self.sim.actors.append(Delivery(ba, self.delivery_mode))

    def listen(self, addr, callback, **link_opts):
        """callback(server_side_socket, client_addr) is called at connect time, after the
        two sockets were linked with link_opts (a = client, b = server)."""
        self.listeners[tuple(addr)] = (callback, link_opts)

    def unlisten(self, addr):
        self.listeners.pop(tuple(addr), None)

    def connect(self, sock, addr):
        sim = self.sim
        sim.yield_('connect')
        addr = tuple(addr)
        sim.log('connect', sock.name, addr)
        fault = self.connect_fault
        hang = fault == 'timeout' or addr in getattr(self, 'hang_addrs', ())
        # the other ways a connect() fails: OSErrors that are no ConnectionError
        other = {'netunreach': lambda: OSError(errno.ENETUNREACH, 'Network is unreachable'),
                 'hostunreach': lambda: OSError(errno.EHOSTUNREACH, 'No route to host'),
                 'addrnotavail': lambda: OSError(errno.EADDRNOTAVAIL,
                                                 'Cannot assign requested address'),
                 'gaierror': lambda: _realsocket.gaierror(-2, 'Name or service not known'),
                 'emfile': lambda: OSError(errno.EMFILE, 'Too many open files')}
        if fault in other:
            sim.bump('net.connect_' + fault)
            raise other[fault]()
        if not hang and (fault == 'refused' or addr not in self.listeners):
            sim.bump('net.connect_refused')
            raise ConnectionRefusedError(errno.ECONNREFUSED, 'Connection refused')
        if hang:
            # nobody answers the SYN: the kernel gives up after about 75 s, a socket time-out
            # set by the caller ends the wait earlier
            sim.bump('net.connect_timeout')
            if sock.timeout is not None and sock.timeout < 75.0:
                sim.sleep(sock.timeout)
                raise _realsocket.timeout('timed out')
            sim.sleep(75.0)
            raise TimeoutError(errno.ETIMEDOUT, 'Connection timed out')
        cb, opts = self.listeners[addr]
        srv = SimSocket(self, 'srv%d' % len(self.sockets))
        sock.addr = addr
        srv.addr = ('simclient', 40000 + len(self.sockets))
        self._link(sock, srv, **opts)
        cb(srv, srv.addr)


# --------------------------------------------------------------------------- module-shaped seams

class SelectNS(object):
    error = OSError

    def __init__(self, sim):
        self.sim = sim

    def select(self, rlist, wlist, xlist, timeout=None):
        rlist = list(rlist)
        if timeout is not None and timeout < 0:
            raise ValueError('timeout must be non-negative')      # as the real one
        for s in rlist:
            if s.closed:
                raise ValueError('file descriptor cannot be a negative integer (-1)')

        def cond():
            for s in rlist:
                if s._readable():
                    return True
            return False
        self.sim.wait(cond, timeout, 'select')
        return [s for s in rlist if s._readable()], list(wlist), []


class TimeNS(object):
    def __init__(self, sim):
        self.sim = sim

    def time(self):
        return self.sim.now

    def monotonic(self):
        return self.sim.now

    def perf_counter(self):
        return self.sim.now

    def sleep(self, d):
        if d < 0:
            raise ValueError('sleep length must be non-negative')
        self.sim.wait(_never, d, 'sleep')


class SimQueue(object):
    """queue.Queue look-alike; get/put are scheduling points."""

    def __init__(self, sim, maxsize=0):
        self.sim = sim
        self.items = []
        self._quantum = 0.001
        self.nput = 0
        self.maxsize = maxsize or 0

    def qsize(self):
        return len(self.items)

    def empty(self):
        return not self.items

    def full(self):
        return 0 < self.maxsize <= len(self.items)

    def put(self, item, block=True, timeout=None):
        self.sim.yield_('q.put')
        if self.full():
            # bounded queue: the producer blocks until a consumer makes room
            if not block:
                raise _realqueue.Full()
            self.sim.bump('probe.queue_full_block')
            self.sim.wait(lambda: not self.full(), timeout, 'q.put-full')
            if self.full():
                raise _realqueue.Full()
        self.items.append(item)
        self.nput += 1
        # the consumer may run the moment the item is there - before the producer executes its
        # next statement (publish-then-initialise races need no finer pre-emption than this)
        if self.yield_after_put:
            self.sim.yield_('q.put-done')

    yield_after_put = True

    def put_nowait(self, item):
        self.put(item, False)

    def _nonempty(self):
        return bool(self.items)

    def get(self, block=True, timeout=None):
        sim = self.sim
        if block and timeout is not None and timeout < 0:
            raise ValueError("'timeout' must be a non-negative number")
        if not block:
            if not self.items:
                # failed poll: modelled as "until non-empty or a quantum passed" with back-off
                q = self._quantum
                self._quantum = min(0.05, q * 2)
                sim.wait(self._nonempty, q, 'q.poll')
                if not self.items:
                    raise _realqueue.Empty()
            else:
                sim.yield_('q.get_nowait')
                if not self.items:
                    raise _realqueue.Empty()
            self._quantum = 0.001
            return self.items.pop(0)
        ok = sim.wait(self._nonempty, timeout, 'q.get')
        if not self.items:
            raise _realqueue.Empty()
        return self.items.pop(0)

    def get_nowait(self):
        return self.get(False)

    def task_done(self):
        pass


class QueueNS(object):
    Empty = _realqueue.Empty
    Full = _realqueue.Full

    def __init__(self, sim):
        self.sim = sim

    def Queue(self, maxsize=0):  # noqa: N802
        return SimQueue(self.sim, maxsize)


class SimEvent(object):
    def __init__(self, sim):
        self.sim = sim
        self.flag = False

    def is_set(self):
        return self.flag

    isSet = is_set

    def set(self):
        self.flag = True

    def clear(self):
        self.flag = False

    def wait(self, timeout=None):
        self.sim.wait(self.is_set, timeout, 'event.wait')
        return self.flag


class SimLock(object):
    def __init__(self, sim):
        self.sim = sim
        self.held = False

    def _free(self):
        return not self.held

    def acquire(self, blocking=True, timeout=-1):
        if not blocking:
            if self.held:
                return False
            self.held = True
            return True
        self.sim.wait(self._free, None if timeout in (-1, None) else timeout, 'lock')
        if self.held:
            return False
        self.held = True
        return True

    def release(self):
        self.held = False

    def locked(self):
        return self.held

    def __enter__(self):
        self.acquire()
        return self

    def __exit__(self, *a):
        self.release()


class SimRLock(object):
    """Re-entrant lock; the owner is the simulator task (or the driver) that holds it."""

    def __init__(self, sim):
        self.sim = sim
        self.owner = None
        self.count = 0

    def _me(self):
        return self.sim.current if self.sim.in_task() else 'driver'

    def _free_for(self, me):
        return self.owner is None or self.owner is me

    def acquire(self, blocking=True, timeout=-1):
        me = self._me()
        if not self._free_for(me):
            if not blocking:
                return False
            self.sim.wait(lambda: self._free_for(me), None if timeout in (-1, None) else timeout,
                          'rlock')
            if not self._free_for(me):
                return False
        self.owner = me
        self.count += 1
        return True

    def release(self):
        if self.owner is not self._me():
            raise RuntimeError('cannot release un-acquired lock')
        self.count -= 1
        if self.count == 0:
            self.owner = None

    def locked(self):
        return self.owner is not None

    def _is_owned(self):
        return self.owner is self._me()

    def _release_save(self):
        state = (self.owner, self.count)
        self.owner, self.count = None, 0
        return state

    def _acquire_restore(self, state):
        me = state[0]
        self.sim.wait(lambda: self.owner is None, None, 'rlock')
        self.owner, self.count = state

    def __enter__(self):
        self.acquire()
        return self

    def __exit__(self, *a):
        self.release()


class SimCondition(object):
    """threading.Condition look-alike: waiters are woken in FIFO order, in virtual time."""

    def __init__(self, sim, lock=None):
        self.sim = sim
        self._lock = lock if lock is not None else SimRLock(sim)
        self._waiters = []
        self.acquire = self._lock.acquire
        self.release = self._lock.release

    def __enter__(self):
        self._lock.acquire()
        return self

    def __exit__(self, *a):
        self._lock.release()

    def _owned(self):
        if hasattr(self._lock, '_is_owned'):
            return self._lock._is_owned()
        return self._lock.locked()

    def wait(self, timeout=None):
        if not self._owned():
            raise RuntimeError('cannot wait on un-acquired lock')
        token = [False]
        self._waiters.append(token)
        if hasattr(self._lock, '_release_save'):
            state = self._lock._release_save()
        else:
            state = None
            self._lock.release()
        try:
            self.sim.wait(lambda: token[0], timeout, 'cond.wait')
        finally:
            if token in self._waiters:
                self._waiters.remove(token)
            if state is not None:
                self._lock._acquire_restore(state)
            else:
                self._lock.acquire()
        return token[0]

    def wait_for(self, predicate, timeout=None):
        end = None if timeout is None else self.sim.now + timeout
        result = predicate()
        while not result:
            left = None
            if end is not None:
                left = end - self.sim.now
                if left <= 0:
                    break
            self.wait(left)
            result = predicate()
        return result

    def notify(self, n=1):
        if not self._owned():
            raise RuntimeError('cannot notify on un-acquired lock')
        for token in self._waiters[:n]:
            token[0] = True
        del self._waiters[:n]

    def notify_all(self):
        self.notify(len(self._waiters))

    notifyAll = notify_all


class SimSemaphore(object):
    def __init__(self, sim, value=1, bound=None):
        if value < 0:
            raise ValueError('semaphore initial value must be >= 0')
        self.sim = sim
        self._value = value
        self._bound = bound

    def acquire(self, blocking=True, timeout=None):
        if self._value <= 0:
            if not blocking:
                return False
            self.sim.wait(lambda: self._value > 0, timeout, 'semaphore')
            if self._value <= 0:
                return False
        self._value -= 1
        return True

    def release(self, n=1):
        if self._bound is not None and self._value + n > self._bound:
            raise ValueError('Semaphore released too many times')
        self._value += n

    def __enter__(self):
        self.acquire()
        return self

    def __exit__(self, *a):
        self.release()


def make_sim_thread_class(sim, on_start=None):
    """threading.Thread look-alike whose start() makes a simulator task (for threads that the
    code under test starts itself, e.g. socketserver's per-connection threads)."""
    counter = {'n': 0}

    class SimThread(object):
        def __init__(self, group=None, target=None, name=None, args=(), kwargs=None,
                     daemon=None):
            self._target = target
            self._args = tuple(args)
            self._kwargs = dict(kwargs or {})
            counter['n'] += 1
            self.name = name or 'thr%d' % counter['n']
            self.daemon = bool(daemon)
            self._task = None
            self.ident = None

        def run(self):
            if self._target is not None:
                self._target(*self._args, **self._kwargs)

        def start(self):
            name, role = self.name, 'thread'
            if on_start is not None:
                name, role = on_start(self) or (name, role)
            self._task = sim.spawn(self.run, name=name, role=role)
            if on_start is not None and hasattr(on_start, 'started'):
                on_start.started(self, self._task)

        def is_alive(self):
            return self._task is not None and not self._task.done

        def join(self, timeout=None):
            t = self._task
            if t is not None:
                sim.wait(lambda: t.done, timeout, 'join')

        def setDaemon(self, d):  # noqa: N802
            self.daemon = bool(d)

        def getName(self):  # noqa: N802
            return self.name
    return SimThread


class ThreadingNS(object):
    def __init__(self, sim, real, thread_cls=None):
        self.sim = sim
        self._real = real
        self.Thread = thread_cls or real.Thread
        self._sim_thread = thread_cls or make_sim_thread_class(sim)
        self.local = real.local
        self.current_thread = real.current_thread
        self.get_ident = real.get_ident

    def Event(self):  # noqa: N802
        return SimEvent(self.sim)

    def Lock(self):  # noqa: N802
        return SimLock(self.sim)

    def RLock(self):  # noqa: N802
        return SimRLock(self.sim)

    def Condition(self, lock=None):  # noqa: N802
        return SimCondition(self.sim, lock)

    def Semaphore(self, value=1):  # noqa: N802
        return SimSemaphore(self.sim, value)

    def BoundedSemaphore(self, value=1):  # noqa: N802
        return SimSemaphore(self.sim, value, bound=value)

    def Timer(self, interval, function, args=None, kwargs=None):  # noqa: N802
        sim = self.sim
        cancelled = SimEvent(sim)

        def body():
            sim.wait(cancelled.is_set, interval, 'timer')
            if not cancelled.is_set():
                function(*(args or ()), **(kwargs or {}))
        t = self._sim_thread(target=body, name='timer')
        t.cancel = cancelled.set
        return t


class SocketNS(object):
    AF_INET = AF_INET
    SOCK_STREAM = SOCK_STREAM
    SHUT_RD, SHUT_WR, SHUT_RDWR = SHUT_RD, SHUT_WR, SHUT_RDWR
    error = OSError
    timeout = _realsocket.timeout
    herror = _realsocket.herror
    gaierror = _realsocket.gaierror
    MSG_WAITALL = _realsocket.MSG_WAITALL
    MSG_PEEK = _realsocket.MSG_PEEK
    MSG_DONTWAIT = _realsocket.MSG_DONTWAIT
    SOL_SOCKET, SO_REUSEADDR, SO_KEEPALIVE = (_realsocket.SOL_SOCKET, _realsocket.SO_REUSEADDR,
                                              _realsocket.SO_KEEPALIVE)
    IPPROTO_TCP, TCP_NODELAY = _realsocket.IPPROTO_TCP, _realsocket.TCP_NODELAY

    def __init__(self, net):
        self.net = net

    def socket(self, *a, **k):
        return self.net.socket()

    def setdefaulttimeout(self, t):
        # process-wide, as the real one: every socket created from now on starts with it,
        # the ones a listening socket accepts included
        self.net.default_timeout = t

    def getdefaulttimeout(self):
        return getattr(self.net, 'default_timeout', None)

    def create_connection(self, addr, timeout=None, source_address=None):
        s = self.net.socket()
        if timeout is not None:
            s.settimeout(timeout)       # as the real one: the time-out stays on the socket
        s.connect(addr)
        return s


def _h(b):
    import zlib
    return zlib.crc32(b) & 0xffffffff
