"""Shared scenario for C06 / C08 / C10: a real ClientAE sends DIMSE messages through the real
Association.send -> provider thread -> simulated wire; a scripted acceptor records every PDU.
The caller thread keeps running while the provider thread transmits (the property's mechanism:
send() hands a lazily evaluated generator to the other thread)."""
import random

from . import refcodec as rc, peers
from .world import SimWorld

ADDR = ('peerhost', 104)
SOP = '1.2.840.10008.5.1.4.1.1.2'

# message class name -> data set allowed/required by PS3.7
ALL_CLASSES = None


def classes():
    global ALL_CLASSES
    if ALL_CLASSES is None:
        from pynetdicom2 import dimsemessages
        ALL_CLASSES = sorted(dimsemessages.MESSAGE_TYPE.items())
    return ALL_CLASSES


def uid_of_len(rnd, n):
    """A syntactically plausible UID with exactly n characters."""
    s = '1.2'
    while len(s) < n:
        s += '.' + str(rnd.randrange(1, 99999))
    s = s[:n]
    if s.endswith('.'):
        s = s[:-1] + '7'
    return s


def fill(msg, rnd, full):
    """Give every field of the message's command set a value (or leave optional ones empty)."""
    cs = msg.command_set
    for el in list(cs):
        num = int(el.tag) & 0xffff
        if num in (0x0000, 0x0100, 0x0800):
            continue
        vr = rc.CMD_VR.get(num)
        if not full and rnd.random() < 0.35 and num not in (0x0110, 0x0120, 0x0002, 0x0003):
            continue                       # optional field left unset ('' as constructed)
        if vr == 'UI':
            el.value = uid_of_len(rnd, rnd.choice([1, 2, 7, 8, 15, 16, 31, 32, 63, 64,
                                                   rnd.randint(1, 64)]))
        elif vr == 'US':
            el.value = rnd.choice([0, 1, 255, 256, 32767, 32768, 65535, rnd.randrange(65536)])
        elif vr == 'AE':
            el.value = 'AE' + 'X' * rnd.randint(0, 14)
        elif vr == 'AT':
            # Attribute Identifier List / Offending Element: value multiplicity 1-n
            k = rnd.choice([1, 1, 2, 3, 5])
            tags = [rnd.choice([0x00100010, 0x00100020, 0x0020000D, 0x00080018, 0x7FE00010])
                    for _ in range(k)]
            el.value = tags[0] if k == 1 else tags
        elif vr == 'LO':
            el.value = 'c' * rnd.randint(1, 20)
    if rnd.random() < 0.2:
        # optional command elements the message class does not list are added the only way
        # there is - through the command set (e.g. Affected SOP Class UID of an N-GET-RSP, Error
        # Comment of a failure response) - in whatever order the application thinks of them
        extra = [(0x0902, 'LO', 'e' * rnd.randint(1, 9)), (0x0903, 'US', rnd.randrange(65536)),
                 (0x1000, 'UI', uid_of_len(rnd, rnd.randint(3, 20))),
                 (0x0002, 'UI', uid_of_len(rnd, rnd.randint(3, 20))),
                 (0x0600, 'AE', 'DEST')]
        rnd.shuffle(extra)
        for num, vr, val in extra[:rnd.randint(1, 3)]:
            if (0x0000, num) not in cs:
                cs.add_new((0x0000, num), vr, val)


def _repad_ae(raw):
    """The same command group as a peer may legally have sent it: AE values with a leading
    space, padded with spaces to 16 bytes; group length recomputed.  -> (bytes, changed?)"""
    import struct
    pos, out, changed = 0, [], False
    while pos + 8 <= len(raw):
        g, e, ln = struct.unpack_from('<HHI', raw, pos)
        val = raw[pos + 8:pos + 8 + ln]
        pos += 8 + ln
        if (g, e) == (0, 0):
            continue
        if ln == 0:
            # (a received message with a zero-length element cannot be passed on at all: send()
            # raises TypeError from pydicom's writer on the unconverted element - an
            # observation, DESIGN 13.3; nothing malformed is transmitted, so it is not C08's)
            return raw, False
        if g == 0 and rc.CMD_VR.get(e) == 'AE' and val.strip():
            val = (b' ' + val.strip())[:16].ljust(16)
            changed = True
        out.append(struct.pack('<HHI', g, e, len(val)) + val)
    body = b''.join(out)
    return struct.pack('<HHII', 0, 0, 4, len(body)) + body, changed


def plan(rnd, max_len):
    """Seeded list of message specs for one association."""
    frag = max(1, max_len - 6)
    specs = []
    n = rnd.randint(1, 4) if max_len < 30 else rnd.randint(2, 8)
    cl = classes()
    for _ in range(n):
        cf, cls = rnd.choice(cl)
        kind = rnd.choice(['none', 'bytes', 'bytes', 'file'])
        k = rnd.choice([1, 1, 2, 3])
        size = max(1, k * frag + rnd.choice([-2, -1, 0, 1, 2]))
        if max_len < 30:
            size = min(size, 60)
        size = min(size, 6000)
        near = None
        if kind != 'none' and max_len >= 200 and rnd.random() < 0.3:
            # command set and data set together just below / at / just above one PDU: the data
            # size is chosen when the message is built (it depends on the command set's length)
            near = rnd.randint(-9, 3)
        specs.append(dict(cf=cf, data=kind, size=size if kind != 'none' else 0, near=near,
                          pcid=rnd.choice([1, 3, 127, 255, rnd.randrange(1, 256, 2)]),
                          full=rnd.random() < 0.5, resend=rnd.choice([0, 0, 1, 2]),
                          pause=rnd.choice([0, 0, 0.0, 0.02, 0.3])))
    return specs


def run(seed, local_max, peer_max, specs=None, timeout=3600, delivery='random', nassoc=1,
        senders=1, fine=None, chatty=0, rel_mid=0):
    """-> dict: world, assocs = [dict(peer, sends, result, user tasks)], and for nassoc == 1 the
    flat keys peer/sends/result/user for the single association.

    nassoc > 1: that many ClientAEs/associations at the same time (each to its own scripted
    acceptor).  senders > 1: that many caller threads share ONE association object.
    fine: set of function names for line-level pre-emption (None = off).
    chatty = k > 0: full-duplex traffic - the peer sends a small complete message of its own for
    every k-th P-DATA-TF PDU it reads, i.e. while the entity is in the middle of its messages.
    rel_mid = k > 0: the peer asks for release behind the k-th PDU it reads; the entity's user
    finishes what it was sending (P-DATA is legal until it answers) and then answers."""
    from pynetdicom2 import applicationentity, sopclass, dimsemessages
    from . import preempt
    rnd = random.Random('ds/%s' % seed)
    world = SimWorld('ds/%s' % seed, with_fs=True, delivery=delivery)
    world.fs.short_read_prefix = '/raw/'
    out = {'world': world, 'assocs': []}
    pre = None
    try:
        world.watch_sends()
        if fine:
            pre = preempt.Preempter(world.sim, prob=0.4, funcs=set(fine),
                                    files=('dsutils.py',))
            pre.install()
        neg = peer_max if (peer_max and (not local_max or peer_max < local_max)) else local_max
        out['neg'] = neg
        all_specs = []
        for a_i in range(nassoc):
            addr = (ADDR[0], ADDR[1] + a_i)
            seen = {'n': 0}

            def on_pdu(peer_, p_, seen=seen):
                seen['n'] += 1
                if rel_mid:
                    if seen['n'] == rel_mid:
                        peer_.send(rc.enc_release_rq())
                    return
                if seen['n'] % chatty == 0:
                    peer_.send_message(1, {0x0002: rc.VERIFICATION, 0x0100: 0x8030,
                                           0x0120: seen['n'] & 0xffff, 0x0800: rc.NO_DATASET,
                                           0x0900: 0}, max_length=65536)
            world.serve_peer(addr, lambda sock, on_pdu=on_pdu: peers.ScriptedAcceptor(
                world.sim, sock, max_length=peer_max,
                on_pdu=on_pdu if (chatty or rel_mid) else None))
            ae = world.make_ae(applicationentity.ClientAE, 'CLI%d' % a_i, [rc.IMPLICIT_LE],
                               local_max)
            ae.timeout = timeout
            ae.add_scu(sopclass.storage_scu, [SOP])
            sp_lists = []
            for s_i in range(senders):
                sp = specs if (specs is not None and a_i == 0 and s_i == 0) else \
                    plan(rnd, neg if neg else 64)
                sp_lists.append(sp)
            all_specs.append(sp_lists)
            rec = {'ae': ae, 'addr': addr, 'result': {}, 'users': [], 'specs': sp_lists,
                   'assoc': None}
            out['assocs'].append(rec)

            def send_all(a, sp_list, tag, rec=rec):
                for i, sp in enumerate(sp_list):
                    cls = dimsemessages.MESSAGE_TYPE[sp['cf']]
                    msg = cls()
                    fill(msg, rnd, sp['full'])
                    if rnd.random() < 0.2:
                        # a message that was RECEIVED and is passed on (forwarding application):
                        # its command set comes out of the decoder, with the peer's legal but
                        # not canonical encoding (AE titles padded to 16, leading space) in
                        # elements nobody has looked at yet
                        from pynetdicom2 import dsutils as _dsu
                        raw_, padded = _repad_ae(_dsu.encode(msg.command_set, True, True))
                        if padded:
                            msg = cls(_dsu.decode(raw_, True, True))
                            world.sim.bump('probe.received_message_passed_on')
                    if sp['data'] != 'none':
                        size = sp['size']
                        if sp.get('near') is not None and neg:
                            from pynetdicom2 import dsutils
                            cl = len(dsutils.encode(msg.command_set, True, True))
                            size = max(1, neg - 6 - cl + sp['near'])
                        payload = bytes(rnd.randrange(256) for _ in range(size))
                        if sp['data'] == 'file':
                            # a third of the file sources behave like raw streams (short reads)
                            path = '/%s/%s_f%d' % ('raw' if (i + len(tag)) % 3 == 0 else 'src',
                                                   tag, i)
                            world.fs.put(path, b'HDR!' + payload)
                            fp = world.fs.open(path, 'rb')
                            fp.seek(4)
                            msg.data_set = fp
                        else:
                            msg.data_set = payload
                    a.send(msg, sp['pcid'])
                    for r in range(sp['resend']):
                        if sp['data'] == 'file':
                            break
                        fill(msg, rnd, True)
                        # the same object again with other field values - and with or without a
                        # data set, whatever it carried before (present -> absent -> present)
                        how = rnd.choice(['bytes', 'bytes', 'none', 'empty'])
                        if how == 'bytes':
                            msg.data_set = bytes(rnd.randrange(256) for _ in range(
                                max(1, (sp['size'] or 24) - r - 1)))
                        elif how == 'none':
                            msg.data_set = None
                        else:
                            msg.data_set = b''
                        a.send(msg, sp['pcid'])
                    if sp['pause']:
                        world.sim.sleep(sp['pause'])

            def user(rec=rec, a_i=a_i):
                with rec['ae'].request_association({'aet': 'SRV', 'address': rec['addr'][0],
                                                    'port': rec['addr'][1]}) as a:
                    rec['result']['negotiated'] = a.max_pdu_length
                    rec['assoc'] = a
                    extra = []
                    for s_i in range(1, senders):
                        extra.append(world.spawn(
                            lambda s_i=s_i: send_all(a, rec['specs'][s_i], 'a%ds%d' % (a_i, s_i)),
                            'sender%d_%d' % (a_i, s_i)))
                    rec['users'] += extra
                    send_all(a, rec['specs'][0], 'a%ds0' % a_i)
                    world.sim.wait(lambda: all(t.done for t in extra), 600.0, 'join')
                    if chatty or rel_mid:
                        # let everything go out, then take what the peer has sent meanwhile
                        # (leaving the association looks at the first thing that arrives)
                        world.sim.wait(lambda: a.dul.from_service_user.empty() and
                                       a.dul.dimse_gen is None, 900.0, 'flush')
                        world.sim.sleep(1.0)
                        while not a.dul.to_service_user.empty():
                            rec['result'].setdefault('received', []).append(
                                a.dul.to_service_user.get(False))
                        if any(getattr(x, 'pdu_type', None) == 5
                               for x in rec['result'].get('received', [])):
                            # the peer has asked for release: answer it, and leave without
                            # asking for a release of our own
                            from pynetdicom2 import pdu as _pdu
                            a.dul.send(_pdu.AReleaseRpPDU())
                            a.association_established = False
                rec['result']['done'] = True
            rec['users'].append(world.spawn(user, 'user%d' % a_i))
        world.run(tmax=timeout + 100)
        world.drain(2.0)
        if pre is not None:
            pre.uninstall()
            pre = None
        by_assoc = {}
        for s_ in world.sends:
            by_assoc.setdefault(id(s_.assoc), []).append(s_)
        for i_, rec in enumerate(out['assocs']):
            rec['peer'] = world.peers[i_] if i_ < len(world.peers) else None
            # peers are created in connection order, which may differ from AE order
        # map peers to associations by calling AE title
        for rec in out['assocs']:
            title = rec['ae'].local_ae['aet']
            rec['peer'] = next((p for p in world.peers if p.rq and p.rq['calling'] == title), None)
            rec['sends'] = by_assoc.get(id(rec['assoc']), []) if rec['assoc'] is not None else []
        first = out['assocs'][0]
        out['user'] = first['users'][0]
        out['result'] = first['result']
        out['peer'] = first['peer']
        out['sends'] = first['sends']
        out['specs'] = first['specs'][0]
        return out
    except BaseException:
        if pre is not None:
            pre.uninstall()
        world.close()
        raise


def pair_up(out, by_content=False):
    """Match sends with the message groups seen on the wire: by position (one caller thread)
    or by content (several caller threads on one association).
    -> list of (SendRecord, [parsed P-DATA-TF PDUs] | None), all groups."""
    peer = out['peer']
    groups = peers.group_messages(peer.pdata if peer else [])
    sends = out['sends']
    pairs = []
    if not by_content:
        for i, s in enumerate(sends):
            pairs.append((s, groups[i] if i < len(groups) else None))
        return pairs, groups
    left = list(groups)
    for s in sends:
        hit = None
        want = norm_fields({k: v for k, v in s.fields.items() if k < 0x10000})
        for g in left:
            _, cmd, data = peers.check_fragmentation(g, 0, None)
            if (data or None) == ((s.data if isinstance(s.data, bytes) else None) or None):
                f, _p = rc.check_command(cmd)
                if norm_fields(f) == want:
                    hit = g
                    break
        if hit is not None:
            left.remove(hit)
        pairs.append((s, hit))
    out['unmatched_groups'] = left
    return pairs, groups


def norm_fields(f):
    """Comparable view of a command set (group length dropped, empty values unified)."""
    out = {}
    for k, v in f.items():
        if k == 0:
            continue
        if v == '' or v == b'' or v == ():
            v = ''
        elif k == 0x0800:
            v = 'none' if v == rc.NO_DATASET else 'present'
        elif rc.CMD_VR.get(k) == 'AT':
            v = 'AT'
        out[k] = v
    return out
