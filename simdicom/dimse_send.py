"""Shared scenario for C06 / C08 / C10: a real ClientAE sends DIMSE messages through the real
Association.send -> provider thread -> simulated wire; a scripted acceptor records every PDU.
The caller thread keeps running while the provider thread transmits (the property's mechanism:
send() hands a lazily evaluated generator to the other thread)."""
import random

from . import refcodec as rc, peers
from .world import SimWorld

ADDR = ('peerhost', 104)
SOP = '1.2.840.10008.5.1.4.1.1.2'

# message class name -> data set allowed/required by PS3.7
ALL_CLASSES = None


def classes():
    global ALL_CLASSES
    if ALL_CLASSES is None:
        from pynetdicom2 import dimsemessages
        ALL_CLASSES = sorted(dimsemessages.MESSAGE_TYPE.items())
    return ALL_CLASSES


def uid_of_len(rnd, n):
    """A syntactically plausible UID with exactly n characters."""
    s = '1.2'
    while len(s) < n:
        s += '.' + str(rnd.randrange(1, 99999))
    s = s[:n]
    if s.endswith('.'):
        s = s[:-1] + '7'
    return s


def fill(msg, rnd, full):
    """Give every field of the message's command set a value (or leave optional ones empty)."""
    cs = msg.command_set
    for el in list(cs):
        num = int(el.tag) & 0xffff
        if num in (0x0000, 0x0100, 0x0800):
            continue
        vr = rc.CMD_VR.get(num)
        if not full and rnd.random() < 0.35 and num not in (0x0110, 0x0120, 0x0002, 0x0003):
            continue                       # optional field left unset ('' as constructed)
        if vr == 'UI':
            el.value = uid_of_len(rnd, rnd.choice([1, 2, 7, 8, 15, 16, 31, 32, 63, 64,
                                                   rnd.randint(1, 64)]))
        elif vr == 'US':
            el.value = rnd.choice([0, 1, 255, 256, 32767, 32768, 65535, rnd.randrange(65536)])
        elif vr == 'AE':
            el.value = 'AE' + 'X' * rnd.randint(0, 14)
        elif vr == 'AT':
            el.value = 0x00100010
        elif vr == 'LO':
            el.value = 'c' * rnd.randint(1, 20)


def plan(rnd, max_len):
    """Seeded list of message specs for one association."""
    frag = max(1, max_len - 6)
    specs = []
    n = rnd.randint(1, 4) if max_len < 30 else rnd.randint(2, 8)
    cl = classes()
    for _ in range(n):
        cf, cls = rnd.choice(cl)
        kind = rnd.choice(['none', 'bytes', 'bytes', 'file'])
        k = rnd.choice([1, 1, 2, 3])
        size = max(1, k * frag + rnd.choice([-2, -1, 0, 1, 2]))
        if max_len < 30:
            size = min(size, 60)
        size = min(size, 6000)
        specs.append(dict(cf=cf, data=kind, size=size if kind != 'none' else 0,
                          pcid=rnd.choice([1, 3, 127, 255, rnd.randrange(1, 256, 2)]),
                          full=rnd.random() < 0.5, resend=rnd.choice([0, 0, 1, 2]),
                          pause=rnd.choice([0, 0, 0.0, 0.02, 0.3])))
    return specs


def run(seed, local_max, peer_max, specs=None, timeout=3600, delivery='random'):
    """-> dict(world pieces): sends (SendRecord list), peer (ScriptedAcceptor), errors."""
    from pynetdicom2 import applicationentity, sopclass, dimsemessages
    rnd = random.Random('ds/%s' % seed)
    world = SimWorld('ds/%s' % seed, with_fs=True, delivery=delivery)
    out = {'world': world}
    try:
        world.watch_sends()
        world.serve_peer(ADDR, lambda sock: peers.ScriptedAcceptor(world.sim, sock,
                                                                    max_length=peer_max))
        ae = world.make_ae(applicationentity.ClientAE, 'CLI', [rc.IMPLICIT_LE], local_max)
        ae.timeout = timeout
        ae.add_scu(sopclass.storage_scu, [SOP])
        neg = peer_max if (peer_max and (not local_max or peer_max < local_max)) else local_max
        if specs is None:
            specs = plan(rnd, neg if neg else 64)
        out['specs'] = specs
        result = {}

        def user():
            with ae.request_association({'aet': 'SRV', 'address': ADDR[0], 'port': ADDR[1]}) as a:
                result['negotiated'] = a.max_pdu_length
                for i, sp in enumerate(specs):
                    cls = dimsemessages.MESSAGE_TYPE[sp['cf']]
                    msg = cls()
                    fill(msg, rnd, sp['full'])
                    if sp['data'] != 'none':
                        payload = bytes(rnd.randrange(256) for _ in range(sp['size']))
                        if sp['data'] == 'file':
                            path = '/src/f%d' % i
                            world.fs.put(path, b'HDR!' + payload)
                            fp = world.fs.open(path, 'rb')
                            fp.seek(4)
                            msg.data_set = fp
                        else:
                            msg.data_set = payload
                    a.send(msg, sp['pcid'])
                    for r in range(sp['resend']):
                        # the provider loops of the library reuse one response object: change
                        # fields and data, send again (qr_find_scp / qr_move_scp idiom)
                        if sp['data'] == 'file':
                            break
                        fill(msg, rnd, True)
                        if sp['data'] == 'bytes':
                            msg.data_set = bytes(rnd.randrange(256)
                                                 for _ in range(max(1, sp['size'] - r - 1)))
                        a.send(msg, sp['pcid'])
                    if sp['pause']:
                        world.sim.sleep(sp['pause'])
            result['done'] = True
        t = world.spawn(user, 'user')
        world.run(tmax=timeout + 100)
        world.drain(2.0)
        out['user'] = t
        out['result'] = result
        out['peer'] = world.peers[0] if world.peers else None
        out['sends'] = world.sends
        return out
    except BaseException:
        world.close()
        raise


def pair_up(out):
    """Match the k-th send with the k-th message group seen on the wire.
    -> list of (SendRecord, [parsed P-DATA-TF PDUs])."""
    peer = out['peer']
    groups = peers.group_messages(peer.pdata if peer else [])
    sends = out['sends']
    pairs = []
    for i, s in enumerate(sends):
        pairs.append((s, groups[i] if i < len(groups) else None))
    return pairs, groups
