"""R-fsm: PS3.8 Table 9-10 as an executable reference (transcribed from the standard, see
DESIGN Appendix A).  Imports nothing from the library."""

STATES = ['Sta%d' % i for i in range(1, 14)]
EVENTS = ['Evt%d' % i for i in range(1, 20)]

PDU_EVENT = {1: 'Evt6', 2: 'Evt3', 3: 'Evt4', 4: 'Evt10', 5: 'Evt12', 6: 'Evt13', 7: 'Evt16'}
USER_EVENT = {1: 'Evt1', 2: 'Evt7', 3: 'Evt8', 4: 'Evt9', 5: 'Evt11', 6: 'Evt14', 7: 'Evt15'}


def _row(spec):
    out = {}
    for part in spec.split():
        sts, act = part.split('>')
        if '..' in sts:
            a, b = sts.split('..')
            rng = range(int(a), int(b) + 1)
        else:
            rng = [int(sts)]
        for s in rng:
            out['Sta%d' % s] = act
    return out


TABLE = {
    'Evt1': _row('1>AE-1'),
    'Evt2': _row('4>AE-2'),
    'Evt3': _row('2>AA-1 3>AA-8 5>AE-3 6..12>AA-8 13>AA-6'),
    'Evt4': _row('2>AA-1 3>AA-8 5>AE-4 6..12>AA-8 13>AA-6'),
    'Evt5': _row('1>AE-5'),
    'Evt6': _row('2>AE-6 3>AA-8 5>AA-8 6..12>AA-8 13>AA-7'),
    'Evt7': _row('3>AE-7'),
    'Evt8': _row('3>AE-8'),
    'Evt9': _row('6>DT-1 8>AR-7'),
    'Evt10': _row('2>AA-1 3>AA-8 5>AA-8 6>DT-2 7>AR-6 8..12>AA-8 13>AA-6'),
    'Evt11': _row('6>AR-1'),
    'Evt12': _row('2>AA-1 3>AA-8 5>AA-8 6>AR-2 7>AR-8 8..12>AA-8 13>AA-6'),
    'Evt13': _row('2>AA-1 3>AA-8 5>AA-8 6>AA-8 7>AR-3 8>AA-8 9>AA-8 10>AR-10 11>AR-3 12>AA-8 13>AA-6'),
    'Evt14': _row('8>AR-4 9>AR-9 12>AR-4'),
    'Evt15': _row('3>AA-1 4>AA-2 5..12>AA-1'),
    'Evt16': _row('2>AA-2 3>AA-3 5..12>AA-3 13>AA-2'),
    'Evt17': _row('2>AA-5 3>AA-4 4>AA-4 5..12>AA-4 13>AR-5'),
    'Evt18': _row('2>AA-2 13>AA-2'),
    'Evt19': _row('2>AA-1 3>AA-8 5..12>AA-8 13>AA-7'),
}
N_DEFINED = sum(len(r) for r in TABLE.values())
assert N_DEFINED == 123, N_DEFINED

# action -> (wire, user, close, artim, next)
#  wire: None | kind | 'primitive' (the PDU given by the user)
#  user: None | 'pdu' (the received PDU is indicated) | 'p-abort' | 'pdata' (via R-dimse)
#  artim: None | 'start' | 'stop' | 'restart'
ACTIONS = {
    'AE-1': ('connect', None, False, None, 'Sta4'),
    'AE-2': ('primitive', None, False, None, 'Sta5'),
    'AE-3': (None, 'pdu', False, None, 'Sta6'),
    'AE-4': (None, 'pdu', True, None, 'Sta1'),
    'AE-5': (None, None, False, 'start', 'Sta2'),
    'AE-6': (None, 'pdu', False, 'stop', 'Sta3'),
    'AE-7': ('primitive', None, False, None, 'Sta6'),
    'AE-8': ('primitive', None, False, 'start', 'Sta13'),
    'DT-1': ('primitive', None, False, None, 'Sta6'),
    'DT-2': (None, 'pdata', False, None, 'Sta6'),
    'AR-1': ('A-RELEASE-RQ', None, False, None, 'Sta7'),
    'AR-2': (None, 'pdu', False, None, 'Sta8'),
    'AR-3': (None, 'pdu', True, None, 'Sta1'),
    'AR-4': ('A-RELEASE-RP', None, False, 'start', 'Sta13'),
    'AR-5': (None, None, False, 'stop', 'Sta1'),
    'AR-6': (None, 'pdata', False, None, 'Sta7'),
    'AR-7': ('primitive', None, False, None, 'Sta8'),
    'AR-8': (None, 'pdu', False, None, 'role'),       # Sta9 if requestor else Sta10
    'AR-9': ('A-RELEASE-RP', None, False, None, 'Sta11'),
    'AR-10': (None, 'pdu', False, None, 'Sta12'),
    'AA-1': ('A-ABORT', None, False, 'restart', 'Sta13'),
    'AA-2': (None, None, True, 'stop', 'Sta1'),
    'AA-3': (None, 'pdu', True, None, 'Sta1'),
    'AA-4': (None, 'p-abort', False, None, 'Sta1'),
    'AA-5': (None, None, False, 'stop', 'Sta1'),
    'AA-6': (None, None, False, None, 'Sta13'),
    'AA-7': ('A-ABORT', None, False, None, 'Sta13'),
    'AA-8': ('A-ABORT-provider', 'p-abort', False, 'start', 'Sta13'),
}


def lookup(state, event):
    return TABLE[event].get(state)


def effects(state, event, requestor):
    """-> None for an undefined cell, else dict(action, wire, user, close, artim, next)."""
    act = lookup(state, event)
    if act is None:
        return None
    wire, user, close, artim, nxt = ACTIONS[act]
    if nxt == 'role':
        nxt = 'Sta9' if requestor else 'Sta10'
    return {'action': act, 'wire': wire, 'user': user, 'close': close, 'artim': artim,
            'next': nxt}


def artim_after(running, artim):
    if artim in ('start', 'restart'):
        return True
    if artim == 'stop':
        return False
    return running
