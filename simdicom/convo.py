"""Conversation corpus (DESIGN Appendix B), a reactive local user, and the runner that plays a
conversation against the real provider under a given delivery plan."""
import struct

from . import refcodec as rc, lib
from .rig import Rig, canon, describe_indication

CT = '1.2.840.10008.5.1.4.1.1.2'        # CT Image Storage
FIND = '1.2.840.10008.5.1.4.1.2.1.1'     # Patient Root Q/R Find


def echo_rq(mid=1, pcid=1):
    cmd = rc.enc_command({0x0002: rc.VERIFICATION, 0x0100: 0x0030, 0x0110: mid, 0x0800: 0x0101})
    return rc.enc_pdata([(pcid, 3, cmd)])


def echo_rsp_cmd(mid=1, status=0):
    return rc.enc_command({0x0002: rc.VERIFICATION, 0x0100: 0x8030, 0x0120: mid, 0x0800: 0x0101,
                           0x0900: status})


def store_rq_pdvs(mid, pcid, data, max_length, sop=CT, inst='1.2.3.99'):
    cmd = rc.enc_command({0x0002: sop, 0x0100: 0x0001, 0x0110: mid, 0x0700: 0, 0x0800: 0x0001,
                          0x1000: inst})
    return rc.fragment_message(pcid, cmd, data, max_length)


def find_rsp_pdvs(mid, pcid, status, data, max_length):
    cmd = rc.enc_command({0x0002: FIND, 0x0100: 0x8020, 0x0120: mid,
                          0x0800: 0x0001 if data else 0x0101, 0x0900: status})
    return rc.fragment_message(pcid, cmd, data, max_length)


def pack(pdvs, per_pdu):
    out = []
    for i in range(0, len(pdvs), per_pdu):
        out.append(rc.enc_pdata(pdvs[i:i + per_pdu]))
    return out


def tiny_ds(n):
    """n bytes (even) of implicit-VR-LE data set: (0010,0010) PN with a value of n-8 bytes."""
    n = max(8, n - n % 2)
    return struct.pack('<HHI', 0x0010, 0x0010, n - 8) + b'A' * (n - 8)


CTXS = ((1, rc.VERIFICATION, (rc.IMPLICIT_LE,)), (3, CT, (rc.IMPLICIT_LE, rc.EXPLICIT_LE)),
        (5, FIND, (rc.IMPLICIT_LE,)))


def corpus():
    """name -> dict(role, steps).  Steps: ('peer', [pdu bytes, ...]) one turn; ('user', what);
    ('fin',).  The reactive user (policy in 'user') answers indications."""
    rq = rc.enc_assoc_rq(contexts=CTXS, max_length=4096)
    rel_rq, rel_rp = rc.enc_release_rq(), rc.enc_release_rp()
    ds40 = tiny_ds(40)
    store = pack(store_rq_pdvs(7, 3, tiny_ds(120), 46), 2)
    ac = rc.enc_assoc_ac(results=((1, 0, rc.IMPLICIT_LE), (3, 0, rc.IMPLICIT_LE),
                                  (5, 0, rc.IMPLICIT_LE)), max_length=4096)
    c = {}
    c['A1_echo'] = dict(role='acceptor', steps=[('peer', [rq]), ('peer', [echo_rq(1)]),
                                                ('peer', [rel_rq]), ('fin',)])
    c['A2_store'] = dict(role='acceptor', steps=[('peer', [rq]), ('peer', store),
                                                 ('peer', [rel_rq]), ('fin',)])
    c['A3_pipelined'] = dict(role='acceptor', steps=[('peer', [rq]),
                                                     ('peer', [echo_rq(1), echo_rq(2)]),
                                                     ('peer', [rel_rq]), ('fin',)])
    c['A4_abort_mid'] = dict(role='acceptor', steps=[
        ('peer', [rq]), ('peer', store[:1] + [rc.enc_abort(0, 0)]), ('fin',)])
    c['A5_refused'] = dict(role='acceptor', user={'reject': (1, 1, 1)},
                           steps=[('peer', [rq]), ('fin',)])
    # a request with another protocol-version field, refused by whoever refuses it (provider
    # or user); the peer then never closes
    c['A19_rq_v2_refused'] = dict(role='acceptor', user={'reject': (1, 2, 2)}, steps=[
        ('peer', [rc.enc_assoc_rq(contexts=CTXS, max_length=4096, protocol=2)]), ('fin',)])
    # the peer goes on talking while the provider waits for its local user, who is in no hurry
    # (never takes the indication): what follows the request is read all the same
    c['A21_rq_abort_user_idle'] = dict(role='acceptor', user={'deaf_after': 0}, steps=[
        ('peer', [rq, rc.enc_abort(0, 0)]), ('fin',)])
    c['A22_rq_echo_rel_user_idle'] = dict(role='acceptor', user={'deaf_after': 0}, steps=[
        ('peer', [rq, echo_rq(1), rel_rq]), ('fin',)])
    c['A6_unknown_type'] = dict(role='acceptor', steps=[
        ('peer', [rq]), ('peer', [rc.enc_pdu(0x0B, b'\0\0\0\0')]), ('fin',)])
    c['A4b_abort_then_fin'] = dict(role='acceptor', steps=[
        ('peer', [rq]), ('peer+fin', store[:1] + [rc.enc_abort(2, 6)])])
    c['A6b_unknown_len0'] = dict(role='acceptor', steps=[
        ('peer', [rq]), ('peer', [rc.enc_pdu(0x0B, b'')]), ('fin',)])
    c['A14_release_then_fin'] = dict(role='acceptor', user={'no_release_rp': True}, steps=[
        ('peer', [rq]), ('peer+fin', [echo_rq(1)[:20]])])
    c['A7b_release_rp_then_fin'] = dict(role='acceptor', steps=[
        ('peer', [rq]), ('peer', [echo_rq(1)]), ('user', 'release'),
        ('peer+fin', store[:1] + [rel_rp])])
    c['R5b_ac_abort_fin'] = dict(role='requestor', steps=[
        ('user', 'associate'), ('peer+fin', [ac, rc.enc_abort(2, 6)])])
    c['A7_user_releases'] = dict(role='acceptor', steps=[
        ('peer', [rq]), ('peer', [echo_rq(1)]), ('user', 'release'), ('peer', [rel_rp]), ('fin',)])
    c['A8_user_aborts'] = dict(role='acceptor', steps=[
        ('peer', [rq]), ('peer', [echo_rq(1)]), ('user', 'abort'), ('fin',)])
    c['A11_half_pdu'] = dict(role='acceptor', steps=[('peer', [rq[:40]]), ('fin',)])
    c['A12_rq_echo_rel_one_turn'] = dict(role='acceptor', steps=[
        ('peer', [rq]), ('peer', [echo_rq(1), echo_rq(2), rel_rq]), ('fin',)])
    c['A9_collision'] = dict(role='acceptor', steps=[
        ('peer', [rq]), ('peer', [echo_rq(1)]), ('user', 'release'), ('peer', [rel_rq]),
        ('peer', [rel_rp]), ('fin',)])
    c['R4_collision'] = dict(role='requestor', steps=[
        ('user', 'associate'), ('peer', [ac]), ('user', 'release'), ('peer', [rel_rq]),
        ('peer', [rel_rp]), ('fin',)])
    c['R1_echo'] = dict(role='requestor', steps=[
        ('user', 'associate'), ('peer', [ac]), ('user', 'echo'),
        ('peer', [rc.enc_pdata([(1, 3, echo_rsp_cmd(1))])]), ('user', 'release'),
        ('peer', [rel_rp]), ('fin',)])
    c['R2_reject'] = dict(role='requestor', steps=[
        ('user', 'associate'), ('peer', [rc.enc_assoc_rj(1, 1, 3)]), ('fin',)])
    finds = []
    for i in range(3):
        finds += pack(find_rsp_pdvs(1, 5, 0xFF00, tiny_ds(60 + 2 * i), 46), 1 + i)
    finds += pack(find_rsp_pdvs(1, 5, 0, b'', 46), 1)
    c['R3_find'] = dict(role='requestor', steps=[
        ('user', 'associate'), ('peer', [ac]), ('user', 'find'), ('peer', finds),
        ('user', 'release'), ('peer', [rel_rp]), ('fin',)])
    c['R5_ac_then_abort'] = dict(role='requestor', steps=[
        ('user', 'associate'), ('peer', [ac, rc.enc_abort(2, 0)]), ('fin',)])
    c['R6_peer_releases'] = dict(role='requestor', steps=[
        ('user', 'associate'), ('peer', [ac]), ('peer', [rel_rq]), ('fin',)])
    # a PDU the provider answers with its own A-ABORT (AA-1 / AA-8), with the peer's A-ABORT
    # right behind it in the same turn: the second PDU must still be acted upon
    c['A15_unexpected_then_abort'] = dict(role='acceptor', steps=[
        ('peer', [rel_rq, rc.enc_abort(2, 0)]), ('fin',)])
    c['A16_unexpected_ac_then_abort'] = dict(role='acceptor', steps=[
        ('peer', [rq]), ('peer', [ac, rc.enc_abort(0, 0)]), ('fin',)])
    c['R7_unexpected_then_abort'] = dict(role='requestor', steps=[
        ('user', 'associate'), ('peer', [rel_rq, rc.enc_abort(2, 0)]), ('fin',)])
    # a PDU that cannot be acted upon as what it claims to be (unknown type; known type without
    # room for its fixed fields), cut anywhere, and further PDUs behind it - in the same turn
    # and in the next one: each is framed by ITS OWN length field
    c['A19_unknown_then_abort'] = dict(role='acceptor', steps=[
        ('peer', [rq]), ('peer', [rc.enc_pdu(0x5A, b'j' * 40), rc.enc_abort(2, 0)]), ('fin',)])
    c['A20_undecodable_then_more'] = dict(role='acceptor', steps=[
        ('peer', [rq]), ('peer', [rc.enc_pdu(0x04, b'\0\0\0\x10\x01' + b'k' * 30)]),
        ('peer', [rq]), ('peer', [rc.enc_abort(0, 0)]), ('fin',)])
    # one turn of exactly as many bytes as the provider asks the socket for in one recv()
    # (its configured maximum PDU length), then the peer waits for the answers
    two = [echo_rq(1), echo_rq(2)]
    c['A17_turn_fills_recv_buffer'] = dict(role='acceptor', max_pdu_length=len(b''.join(two)),
                                           steps=[('peer', [rq]), ('peer', two),
                                                  ('peer', [rel_rq]), ('fin',)])
    # the peer pipelines many requests to a user that has stopped taking indications; then the
    # user aborts (from another thread) while everything is still waiting
    c['A18_flood_deaf_user_aborts'] = dict(role='acceptor', user={'deaf_after': 1}, sparse=True, steps=[
        ('peer', [rq]), ('peer', [echo_rq(1 + j) for j in range(40)]), ('user', 'abort'),
        ('fin',)])
    return c


class ReactiveUser(object):
    """Local service user: a deterministic function of the indications it receives.
    Runs as a simulator task (its own thread under the baton)."""

    def __init__(self, rig, policy=None):
        self.rig = rig
        self.policy = policy or {}
        self.seen = []
        self.max_length = self.policy.get('max_length', 16384)
        self.task = rig.sim.spawn(self._run, name='user', role='user')

    def _run(self):
        prov = self.rig.provider
        q = prov.to_service_user
        while True:
            if self.policy.get('deaf_after') is not None and \
                    len(self.seen) >= self.policy['deaf_after']:
                # the application stops taking indications (busy elsewhere, or on its way out)
                self.rig.sim.wait(lambda: False, 100000.0, 'user-deaf')
                return
            item = q.get(True, None)
            self.seen.append(item)
            self.react(item)

    def react(self, item):
        prov = self.rig.provider
        if isinstance(item, tuple):
            msg, pcid = item
            cs = msg.command_set
            cf = cs.CommandField
            mid = getattr(cs, 'MessageID', 0)
            sop = str(getattr(cs, 'AffectedSOPClassUID', ''))
            if cf == 0x0030:
                cmd = rc.enc_command({0x0002: sop, 0x0100: 0x8030, 0x0120: mid, 0x0800: 0x0101,
                                      0x0900: 0})
                prov.send(lib.pdata([(pcid, 3, cmd)]))
            elif cf == 0x0001:
                inst = str(getattr(cs, 'AffectedSOPInstanceUID', ''))
                cmd = rc.enc_command({0x0002: sop, 0x0100: 0x8001, 0x0120: mid, 0x0800: 0x0101,
                                      0x0900: 0, 0x1000: inst})
                prov.send(lib.pdata([(pcid, 3, cmd)]))
            return
        t = getattr(item, 'pdu_type', None)
        if t == 1:
            rj = self.policy.get('reject')
            if rj:
                prov.send(lib.assoc_rj(*rj))
            else:
                prov.send(lib.ac_for_indication(item, self.max_length))
        elif t == 5:
            if self.policy.get('no_release_rp'):
                return
            if getattr(self.rig, 'user_released', False) and self.rig.role == 'acceptor':
                self.pending_rp = True       # collision, acceptor side: answer after the confirm
            else:
                prov.send(lib.release_rp())
        elif t == 6:
            if getattr(self, 'pending_rp', False):
                self.pending_rp = False
                prov.send(lib.release_rp())


def user_action(rig, what):
    if what == 'associate':
        rig.user(lib.assoc_rq(contexts=CTXS, max_length=4096))
    elif what == 'release':
        rig.user_released = True
        rig.user(lib.release_rq())
    elif what == 'abort':
        rig.user(lib.abort(0, 0))
    elif what == 'echo':
        cmd = rc.enc_command({0x0002: rc.VERIFICATION, 0x0100: 0x0030, 0x0110: 1, 0x0800: 0x0101})
        rig.user(lib.pdata([(1, 3, cmd)]))
    elif what == 'find':
        cmd = rc.enc_command({0x0002: FIND, 0x0100: 0x0020, 0x0110: 1, 0x0700: 0, 0x0800: 1})
        for pdv in rc.fragment_message(5, cmd, tiny_ds(30), 46):
            rig.user(lib.pdata([pdv]))
    else:
        raise ValueError(what)


def play(convo, plan, seed, prebuffer_first=False, short_reads=False):
    """Play `convo` with delivery `plan`: {turn index: (cuts, gaps)}; a missing turn is delivered
    one PDU per segment with a settle in between (the baseline).  Returns an observation dict."""
    steps = convo['steps']
    role = convo['role']
    pre = b''
    first_peer = next((i for i, s in enumerate(steps) if s[0] in ('peer', 'peer+fin')), None)
    turn_no = -1
    segs_first = None
    if prebuffer_first and role == 'acceptor' and first_peer is not None:
        data = b''.join(steps[first_peer][1])
        cuts, _ = plan.get(0, (None, None)) if plan else (None, None)
        segs_first = _segments(data, steps[first_peer][1], cuts)
        pre = segs_first[0]
    rig = Rig(seed, role=role, prebuffer=pre, short_reads=short_reads,
              max_pdu_length=convo.get('max_pdu_length', 65536))
    obs = {'settled': True, 'progress': []}
    try:
        user = ReactiveUser(rig, convo.get('user'))
        busy = lambda: user.task.kind not in ('q.get',) and not user.task.done
        for i, st in enumerate(steps):
            if st[0] in ('peer', 'peer+fin'):
                turn_no += 1
                data = b''.join(st[1])
                cuts, gaps = plan.get(turn_no, (None, None)) if plan else (None, None)
                segs = _segments(data, st[1], cuts)
                if i == first_peer and pre:
                    segs = segs[1:]
                    if cuts is None:
                        obs['settled'] &= rig.settle(extra=busy)
                if rig.prov_sock is None:
                    obs['settled'] &= rig.settle(extra=busy)
                for j, sg in enumerate(segs):
                    if rig.prov_sock is None:
                        break
                    rig.peer_bytes(sg)
                    if cuts is None:
                        obs['settled'] &= rig.settle(extra=busy)
                    else:
                        g = gaps[j % len(gaps)] if gaps else 0.0
                        if g:
                            rig.advance(g)
                if st[0] == 'peer+fin' and rig.prov_sock is not None:
                    # the peer closes right behind its last byte (no pause in non-baseline plans)
                    rig.peer_fin()
                obs['settled'] &= rig.settle(extra=busy)
                # what exists once this turn has been delivered completely and things are quiet
                rig.wire_take()
                obs['progress'].append((turn_no, len(user.seen),
                                        len(rc.parse_stream(rig.wire_bytes)[0])))
            elif st[0] == 'user':
                user_action(rig, st[1])
                obs['settled'] &= rig.settle(extra=busy)
            elif st[0] == 'fin':
                if rig.prov_sock is not None:
                    rig.peer_fin()
                obs['settled'] &= rig.settle(extra=busy)
        rig.wire_take()
        obs['indications'] = [canon(x) for x in user.seen]
        obs['ind_kinds'] = [describe_indication(x) for x in user.seen]
        pdus, rem = rc.parse_stream(rig.wire_bytes)
        obs['wire'] = [rc.summarize(p) for p in pdus]
        obs['wire_kinds'] = [p['kind'] for p in pdus]
        obs['wire_rem'] = rem
        obs['final'] = (rig.state(), rig.sock_gone(), rig.timer_running(),
                        bytes(rig.provider.raw_pdu))
        obs['loop_exc'] = (type(rig.task.exc).__name__ if rig.task.exc else None)
        obs['loop_tb'] = rig.task.tb
        obs['user_exc'] = user.task.tb
        obs['digest'] = rig.sim.digest.hexdigest()
        obs['sched_sig'] = rig.sim.sched_sig.hexdigest()
        obs['steps'] = rig.sim.steps
        obs['vsecs'] = rig.sim.now - 1000.0
        obs['stats'] = dict(rig.sim.stats)
        obs['blocked'] = rig.sim.blocked_report()
    finally:
        rig.close()
    return obs


def _segments(data, pdus, cuts):
    if cuts is None:
        return list(pdus)
    out = []
    prev = 0
    for c in cuts:
        if prev < c < len(data):
            out.append(data[prev:c])
            prev = c
    out.append(data[prev:])
    return [s for s in out if s]
