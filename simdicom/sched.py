"""Deterministic scheduler: real threads, one baton, virtual clock, decision trace.

Exactly one thread runs at any instant: either the *driver* (the thread that
called Sim.step/run_*) or the task that currently holds the baton.  A task gives
the baton back by calling Sim.wait() from a seam (select, recv, queue.get,
sleep, ...).  Every nondeterministic decision goes through Sim.choose() and is
recorded in Sim.trace so that a run is a pure function of (code, seed | trace).
"""
import hashlib
import random
import sys
import threading
import traceback

WATCHDOG_S = 20.0   # real seconds a task may run between two seams


class SimAbort(BaseException):
    """Raised inside a parked task when the run is torn down."""


class HarnessError(Exception):
    """Something is wrong with the machinery (never a verdict)."""


class NoProgress(HarnessError):
    """A task ran for WATCHDOG_S real seconds without reaching a seam."""


class Task(object):
    __slots__ = ('sim', 'fn', 'name', 'role', 'thread', 'go', 'cond', 'deadline', 'kind',
                 'done', 'exc', 'tb', 'started', 'result', 'ident', 'idx', 'stalled_until',
                 'steps', 'value')

    def __init__(self, sim, fn, name, role, idx):
        self.sim = sim
        self.fn = fn
        self.name = name
        self.role = role
        self.idx = idx
        self.go = threading.Lock()
        self.go.acquire()
        self.cond = None
        self.deadline = None
        self.kind = 'start'
        self.done = False
        self.exc = None
        self.tb = None
        self.started = False
        self.result = True
        self.ident = None
        self.stalled_until = None
        self.steps = 0
        self.value = None
        self.thread = threading.Thread(target=self._body, name='sim-' + name)
        self.thread.daemon = True

    def _body(self):
        self.go.acquire()
        sim = self.sim
        try:
            if sim._aborting:
                raise SimAbort()
            self.value = self.fn()
        except SimAbort:
            pass
        except BaseException as exc:  # pylint: disable=broad-except
            self.exc = exc
            self.tb = traceback.format_exc()
        finally:
            # like threading.Thread.run(): the target is let go when it has returned, so a
            # finished task keeps nothing of the application alive
            self.fn = None
            self.done = True
            self.kind = 'done'
            sim.current = None
            sim._sched.release()

    def __repr__(self):
        return '<Task %s %s>' % (self.name, self.kind)


class Actor(object):
    """Something other than a task that the scheduler may fire (network, fault)."""
    name = 'actor'
    urgent = False     # True: fires as soon as it is ready, ahead of any scheduling choice

    def ready(self, now):  # pragma: no cover
        return False

    def next_time(self):
        return None

    def fire(self, sim):  # pragma: no cover
        pass


# replay / minimisation plumbing: decision traces are forced and captured per simulator seed
FINISHED = []        # (schedule signature, steps, virtual seconds) of every simulator unwound
FORCED = None        # dict seed -> list of decisions, or None
CAPTURE = None       # dict seed -> Sim, filled when not None


class Sim(object):
    def __init__(self, seed, trace=None, policy='random'):
        if trace is None and FORCED is not None and str(seed) in FORCED:
            trace = FORCED[str(seed)]
        if CAPTURE is not None:
            CAPTURE[str(seed)] = self
        self.seed = seed
        self.now = 1000.0            # virtual epoch (non-zero: Timer tests `_start_time` truthiness)
        self.tasks = []
        self.actors = []
        self.current = None
        self._sched = threading.Lock()
        self._sched.acquire()
        self._aborting = False
        self._rngs = {}
        self.replay = list(trace) if trace is not None else None
        self.replay_pos = 0
        self.trace = []
        self.trace_tags = []
        self.policy = policy         # 'random' | 'first' (deterministic lowest index)
        self.steps = 0
        self.digest = hashlib.sha1()
        self.log_tail = []
        self.log_keep = 60
        self.sched_sig = hashlib.sha1()
        self.stats = {}
        self.timers = []             # (time, seq, fn) simple timed callbacks
        self._timer_seq = 0
        self.max_steps = 200000
        self.on_step = None
        self.listeners = {}
        self.sockets = []
        self.preempt = None          # fine-grain pre-emption config (set by preempt.py)

    # ------------------------------------------------------------------ decisions
    def rng(self, stream):
        r = self._rngs.get(stream)
        if r is None:
            r = random.Random('%s/%s' % (self.seed, stream))
            self._rngs[stream] = r
        return r

    def choose(self, stream, n, tag=''):
        """Return an int in [0, n).  0 is always the 'default / simplest' option."""
        if n <= 1:
            return 0
        if self.replay is not None:
            if self.replay_pos < len(self.replay):
                v = self.replay[self.replay_pos]
                self.replay_pos += 1
                if not (0 <= v < n):
                    v = 0
            else:
                v = 0
        elif self.policy == 'first' and stream == 'schedule':
            v = 0
        else:
            v = self.rng(stream).randrange(n)
        self.trace.append(v)
        return v

    def chance(self, stream, p, tag=''):
        """True with probability p (recorded as a 0/1 decision; 0 = no)."""
        if p <= 0:
            return False
        if self.replay is not None:
            return bool(self.choose(stream, 2, tag))
        v = 1 if self.rng(stream).random() < p else 0
        self.trace.append(v)
        return bool(v)

    def bump(self, key, n=1):
        self.stats[key] = self.stats.get(key, 0) + n

    # ------------------------------------------------------------------ logging
    def log(self, *event):
        s = repr(event)
        self.digest.update(s.encode())
        tail = self.log_tail
        tail.append('%.4f %s' % (self.now, s))
        if len(tail) > self.log_keep:
            del tail[0]

    # ------------------------------------------------------------------ tasks
    def spawn(self, fn, name=None, role='task'):
        idx = len(self.tasks)
        t = Task(self, fn, name or ('t%d' % idx), role, idx)
        self.tasks.append(t)
        t.thread.start()
        t.ident = t.thread.ident
        self.log('spawn', t.name, role)
        return t

    def in_task(self):
        t = self.current
        return t is not None and threading.get_ident() == t.ident

    def wait(self, cond=None, timeout=None, kind=''):
        """Seam call: yield the baton until cond() holds or `timeout` virtual seconds passed.

        Returns True if cond held, False on timeout.  Called from the driver
        (or from a finaliser) it never yields: it just evaluates cond.
        """
        t = self.current
        if t is None or threading.get_ident() != t.ident:
            return True if cond is None else bool(cond())
        if self._aborting:
            raise SimAbort()
        t.cond = cond
        t.deadline = None if timeout is None else self.now + max(0.0, timeout)
        t.kind = kind
        self.current = None
        self._sched.release()
        t.go.acquire()
        if self._aborting:
            raise SimAbort()
        return t.result

    def yield_(self, kind='yield'):
        return self.wait(None, None, kind)

    def sleep(self, d):
        self.wait(_never, d, 'sleep')

    def after(self, delay, fn):
        self._timer_seq += 1
        self.timers.append((self.now + delay, self._timer_seq, fn))
        self.timers.sort(key=lambda x: (x[0], x[1]))

    # ------------------------------------------------------------------ scheduler
    def _ready_tasks(self):
        out = []
        now = self.now
        for t in self.tasks:
            if t.done:
                continue
            if t.stalled_until is not None:
                if t.stalled_until > now:
                    continue
                t.stalled_until = None
            c = t.cond
            if c is None or c():
                t.result = True
                out.append(t)
            elif t.deadline is not None and t.deadline <= now:
                t.result = False
                out.append(t)
        return out

    def _next_time(self):
        nt = None
        for t in self.tasks:
            if t.done:
                continue
            if t.stalled_until is not None and t.stalled_until > self.now:
                cand = t.stalled_until
            else:
                cand = t.deadline
            if cand is not None and (nt is None or cand < nt):
                nt = cand
        for a in self.actors:
            cand = a.next_time()
            if cand is not None and (nt is None or cand < nt):
                nt = cand
        if self.timers:
            cand = self.timers[0][0]
            if nt is None or cand < nt:
                nt = cand
        return nt

    def _run_task(self, t):
        t.steps += 1
        self.current = t
        t.cond = None
        t.deadline = None
        t.go.release()
        if not self._sched.acquire(timeout=WATCHDOG_S):
            import faulthandler
            faulthandler.dump_traceback(file=sys.stderr)
            raise NoProgress('task %s did not reach a seam in %ss (last kind %s)' % (
                t.name, WATCHDOG_S, t.kind))

    def step(self, until=None):
        """Perform one scheduling step.  Returns False when nothing can happen
        (at or before `until`)."""
        while self.timers and self.timers[0][0] <= self.now:
            _, _, fn = self.timers.pop(0)
            fn()
        for a in self.actors:
            if a.urgent and a.ready(self.now):
                self.steps += 1
                self.sched_sig.update(('U:%s|' % a.name).encode())
                self.log('urgent', a.name)
                a.fire(self)
                return True
        ready = self._ready_tasks()
        acts = [a for a in self.actors if not a.urgent and a.ready(self.now)]
        n = len(ready) + len(acts)
        if n == 0:
            nt = self._next_time()
            if nt is None:
                return False
            if until is not None and nt > until:
                return False
            if nt > self.now:
                self.now = nt
            return True
        self.steps += 1
        if self.steps > self.max_steps:
            raise HarnessError('step budget exhausted (%d)' % self.max_steps)
        k = self.choose('schedule', n, 'sched')
        if k < len(ready):
            t = ready[k]
            self.sched_sig.update(('%s:%s|' % (t.role, t.kind)).encode())
            self.log('run', t.name, t.kind, t.result)
            self._run_task(t)
        else:
            a = acts[k - len(ready)]
            self.sched_sig.update(('A:%s|' % a.name).encode())
            self.log('act', a.name)
            a.fire(self)
        if self.on_step is not None:
            self.on_step()
        return True

    def run_for(self, duration, pred=None):
        """Run until the virtual clock reached now+duration (or pred() holds)."""
        target = self.now + duration
        while True:
            if pred is not None and pred():
                return True
            if not self.step(until=target):
                break
        if self.now < target:
            self.now = target
        return pred() if pred is not None else True

    def run_until(self, pred, tmax):
        """Run until pred() holds; give up after tmax virtual seconds or when nothing
        can happen any more.  Returns pred()."""
        target = self.now + tmax
        while not pred():
            if not self.step(until=target):
                break
        return bool(pred())

    def run_all(self, tmax):
        """Run until nothing can happen any more or tmax virtual seconds passed."""
        target = self.now + tmax
        while self.step(until=target):
            pass

    def live_tasks(self):
        return [t for t in self.tasks if not t.done]

    def blocked_report(self):
        return ['%s:%s' % (t.name, t.kind) for t in self.tasks if not t.done]

    # ------------------------------------------------------------------ teardown
    def unwind(self):
        """Resume every parked task with SimAbort so that its thread exits."""
        self._aborting = True
        FINISHED.append((self.sched_sig.hexdigest(), self.steps, self.now - 1000.0,
                         len(self.trace)))
        for t in self.tasks:
            if t.done:
                continue
            self.current = t
            t.go.release()
            if not self._sched.acquire(timeout=WATCHDOG_S):
                raise NoProgress('task %s did not unwind' % t.name)
        for t in self.tasks:
            t.thread.join(timeout=5)
        self.current = None

    def stall(self, task, duration):
        task.stalled_until = self.now + duration
        self.bump('fault.stall')
        self.log('stall', task.name, duration)


def _never():
    return False


class Trigger(Actor):
    """One-shot fault: fires `action` the first time `pred()` holds (checked before every
    scheduling step, i.e. while every task is parked at a seam)."""
    urgent = True

    def __init__(self, name, pred, action):
        self.name = name
        self.pred = pred
        self.action = action
        self.fired = False

    def ready(self, now):
        return not self.fired and self.pred()

    def fire(self, sim):
        self.fired = True
        self.action()
