"""Helpers that build *library-side* objects (the service primitives a local user hands to the
provider).  These necessarily use the library's own PDU classes: that is its public API."""
from . import refcodec as rc


def mods():
    from pynetdicom2 import pdu, userdataitems, dimsemessages, fsm, dulprovider
    return pdu, userdataitems, dimsemessages, fsm, dulprovider


def assoc_rq(called='SRV', calling='CLI', contexts=((1, rc.VERIFICATION, (rc.IMPLICIT_LE,)),),
             max_length=16384, addr=('peerhost', 104)):
    pdu, udi, _, _, _ = mods()
    items = [pdu.ApplicationContextItem(rc.APP_CONTEXT)]
    for pcid, ab, tss in contexts:
        items.append(pdu.PresentationContextItemRQ(
            pcid, pdu.AbstractSyntaxSubItem(ab), [pdu.TransferSyntaxSubItem(t) for t in tss]))
    items.append(pdu.UserInformationItem([udi.MaximumLengthSubItem(max_length),
                                          udi.ImplementationClassUIDSubItem('1.2.3.4')]))
    p = pdu.AAssociateRqPDU(called_ae_title=called, calling_ae_title=calling, variable_items=items)
    p.called_presentation_address = addr
    return p


def assoc_ac(called='SRV', calling='CLI', results=((1, 0, rc.IMPLICIT_LE),), max_length=16384):
    pdu, udi, _, _, _ = mods()
    items = [pdu.ApplicationContextItem(rc.APP_CONTEXT)]
    for pcid, res, ts in results:
        items.append(pdu.PresentationContextItemAC(pcid, res, pdu.TransferSyntaxSubItem(ts)))
    items.append(pdu.UserInformationItem([udi.MaximumLengthSubItem(max_length),
                                          udi.ImplementationClassUIDSubItem('1.2.3.4')]))
    return pdu.AAssociateAcPDU(called_ae_title=called, calling_ae_title=calling,
                               variable_items=items)


def assoc_rj(result=1, source=1, reason=1):
    pdu = mods()[0]
    return pdu.AAssociateRjPDU(result, source, reason)


def release_rq():
    return mods()[0].AReleaseRqPDU()


def release_rp():
    return mods()[0].AReleaseRpPDU()


def abort(source=0, reason=0):
    return mods()[0].AAbortPDU(source=source, reason_diag=reason)


def pdata(pdvs):
    """P-DATA request primitive carrying the given (pcid, mch, payload) PDVs."""
    pdu = mods()[0]
    return pdu.PDataTfPDU([pdu.PresentationDataValueItem(c, bytes([m]) + p) for c, m, p in pdvs])


def ac_for_indication(ind, max_length=16384, accept=lambda pcid, ab, tss: (0, tss[0])):
    """A-ASSOCIATE response (accept) primitive answering a received A-ASSOCIATE-RQ indication."""
    results = []
    for item in ind.variable_items[1:-1]:
        tss = [t.name for t in item.ts_sub_items]
        res, ts = accept(item.context_id, item.abs_sub_item.name, tss)
        results.append((item.context_id, res, ts))
    return assoc_ac(ind.called_ae_title, ind.calling_ae_title, results, max_length)
