"""Named PDUs / primitives used by the FSM workloads: for each name the reference encoding
(R-codec) and, for user primitives, the builder of the equivalent library object."""
from . import refcodec as rc, lib
from .convo import CTXS

ECHO_CMD = rc.enc_command({0x0002: rc.VERIFICATION, 0x0100: 0x0030, 0x0110: 9, 0x0800: 0x0101})
ECHO_RSP_CMD = rc.enc_command({0x0002: rc.VERIFICATION, 0x0100: 0x8030, 0x0120: 9,
                               0x0800: 0x0101, 0x0900: 0})
AC_RESULTS = ((1, 0, rc.IMPLICIT_LE), (3, 0, rc.IMPLICIT_LE), (5, 0, rc.IMPLICIT_LE))

PEER = {
    'rq': rc.enc_assoc_rq(contexts=CTXS, max_length=4096),
    'ac': rc.enc_assoc_ac(results=AC_RESULTS, max_length=4096),
    'rj': rc.enc_assoc_rj(1, 1, 3),
    'rj2': rc.enc_assoc_rj(2, 3, 2),
    'data': rc.enc_pdata([(1, 3, ECHO_CMD)]),
    'data2': rc.enc_pdata([(1, 1, ECHO_CMD[:8]), (1, 3, ECHO_CMD[8:])]),
    'part': rc.enc_pdata([(1, 1, ECHO_CMD[:10])]),
    'rest': rc.enc_pdata([(1, 3, ECHO_CMD[10:])]),
    'relrq': rc.enc_release_rq(),
    'relrp': rc.enc_release_rp(),
    'abort': rc.enc_abort(0, 0),
    'abort2': rc.enc_abort(2, 6),
    'unk': rc.enc_pdu(0x0B, b'\x01\x02\x03\x04'),
    'unk0': rc.enc_pdu(0x00, b''),
    # a P-DATA-TF whose last command fragment cannot be decoded as a command set: where P-DATA
    # is expected (Sta6, Sta7) the provider treats it as an invalid PDU, elsewhere it is just
    # a P-DATA-TF PDU
    'garb': rc.enc_pdata([(1, 3, b'\x07\x00junk-junk-junk')]),
    # PDUs of a KNOWN type that cannot be decoded (fixed fields missing / bytes left over behind
    # the last item): invalid PDUs in every state, whatever their type byte says
    'trunc': rc.enc_pdu(0x05, b'\x00\x00'),
    'badpd': rc.enc_pdu(0x04, rc.enc_pdata([(1, 3, ECHO_CMD)])[6:] + b'\x00\x00'),
}
PEER_EVENT = {'rq': 'Evt6', 'ac': 'Evt3', 'rj': 'Evt4', 'rj2': 'Evt4', 'data': 'Evt10',
              'data2': 'Evt10', 'part': 'Evt10', 'rest': 'Evt10', 'relrq': 'Evt12',
              'relrp': 'Evt13', 'abort': 'Evt16', 'abort2': 'Evt16', 'unk': 'Evt19',
              'unk0': 'Evt19', 'garb': 'Evt10', 'trunc': 'Evt19', 'badpd': 'Evt19'}

# user primitives: name -> (event, builder of library object, reference encoding of what must
# appear on the wire when the action says "send the primitive")
USER = {
    'assoc': ('Evt1', lambda: lib.assoc_rq(contexts=CTXS, max_length=4096),
              rc.enc_assoc_rq(contexts=CTXS, max_length=4096)),
    'ac': ('Evt7', lambda: lib.assoc_ac(results=AC_RESULTS, max_length=4096),
           rc.enc_assoc_ac(results=AC_RESULTS, max_length=4096)),
    'rj': ('Evt8', lambda: lib.assoc_rj(1, 1, 1), rc.enc_assoc_rj(1, 1, 1)),
    'rj2': ('Evt8', lambda: lib.assoc_rj(2, 1, 7), rc.enc_assoc_rj(2, 1, 7)),
    'data': ('Evt9', lambda: lib.pdata([(1, 3, ECHO_RSP_CMD)]),
             rc.enc_pdata([(1, 3, ECHO_RSP_CMD)])),
    'data2': ('Evt9', lambda: lib.pdata([(1, 1, ECHO_RSP_CMD[:8]), (1, 3, ECHO_RSP_CMD[8:])]),
              rc.enc_pdata([(1, 1, ECHO_RSP_CMD[:8]), (1, 3, ECHO_RSP_CMD[8:])])),
    'relrq': ('Evt11', lib.release_rq, rc.enc_release_rq()),
    'relrp': ('Evt14', lib.release_rp, rc.enc_release_rp()),
    'abort': ('Evt15', lambda: lib.abort(0, 0), rc.enc_abort(0, 0)),
    'abort2': ('Evt15', lambda: lib.abort(2, 3), rc.enc_abort(2, 3)),
}


def gen_primitive(n=3):
    """A DIMSE-style generator primitive (what Association.send queues): n P-DATA-TF PDUs."""
    parts = [ECHO_RSP_CMD[i * 8:(i + 1) * 8] for i in range(n - 1)] + [ECHO_RSP_CMD[(n - 1) * 8:]]
    raws = []
    objs = []
    for i, p in enumerate(parts):
        mch = 3 if i == n - 1 else 1
        raws.append(rc.enc_pdata([(1, mch, p)]))
        objs.append((1, mch, p))
    return (lib.pdata([o]) for o in objs), raws


def lib_pdu(raw):
    """Library object for a received PDU, produced the way the provider produces it."""
    from pynetdicom2 import dulprovider
    cls, _ = dulprovider.PDU_TYPES[raw[0]]
    return cls.decode(raw)
