"""P1 harness: one real DULServiceProvider (real run loop, real state machine, real decoders)
on a simulated socket, against a peer and a local user that the driver scripts."""
import gc
import zlib

from . import sched, seams, refcodec as rc

STATE_NAMES = ['Sta1', 'Sta2', 'Sta3', 'Sta4', 'Sta5', 'Sta6', 'Sta7', 'Sta8', 'Sta9', 'Sta10',
               'Sta11', 'Sta12', 'Sta13']
PEER_ADDR = ('peerhost', 104)


def canon(obj, depth=0):
    """Canonical, comparable description of anything the provider hands to its user."""
    if depth > 8:
        return '...'
    if obj is None or isinstance(obj, (int, float, str, bool)):
        return obj
    if isinstance(obj, (bytes, bytearray)):
        return bytes(obj)
    if isinstance(obj, (list, tuple)):
        return tuple(canon(x, depth + 1) for x in obj)
    if isinstance(obj, dict):
        return tuple(sorted((str(k), canon(v, depth + 1)) for k, v in obj.items()))
    cname = type(obj).__name__
    if hasattr(obj, 'command_set') and hasattr(obj, 'data_set'):
        return canon_msg(obj)
    d = getattr(obj, '__dict__', None)
    if d is not None:
        return (cname,) + tuple((k, canon(v, depth + 1)) for k, v in sorted(d.items())
                                if not k.startswith('_sim'))
    return (cname, str(obj))


def canon_msg(msg):
    cs = msg.command_set
    els = []
    for el in cs:
        v = el.value
        if hasattr(v, 'real') and not isinstance(v, (int, float)):
            v = str(v)
        els.append((int(el.tag), str(v) if not isinstance(v, (int, bytes)) else v))
    ds = msg.data_set
    if ds is None:
        data = None
    elif isinstance(ds, (bytes, bytearray)):
        data = bytes(ds)
    else:
        try:
            pos = ds.tell()
            ds.seek(0)
            data = ('file', pos, ds.read())
            ds.seek(pos)
        except Exception as e:  # pylint: disable=broad-except
            data = ('file-unreadable', repr(e))
    return ('DIMSE', type(msg).__name__, tuple(els), data)


class Rig(object):
    def __init__(self, seed, role='acceptor', trace=None, store_in_file=(), get_file_cb=None,
                 max_pdu_length=65536, prebuffer=b'', fs=None, policy='random', short_reads=False,
                 with_fs=False):
        from pynetdicom2 import dulprovider
        self.sim = sched.Sim(seed, trace, policy=policy)
        gc.disable()
        if with_fs:
            from . import fs as simfs
            fs = simfs.SimFS(self.sim)
        self.world = seams.install(self.sim, fs)
        self.role = role
        self.closed = False
        net = self.world.net
        self.prov_sock = None
        self.peer_sock = None
        self.indications = []      # everything taken off to_service_user by the driver/user task
        self.wire_bytes = b''      # everything the provider wrote, cumulative
        self.connects = 0
        if get_file_cb is None:
            get_file_cb = lambda ctx, cs: (_ for _ in ()).throw(RuntimeError('no get_file_cb'))
        if role == 'acceptor':
            a, b = net.pair('prov', 'peer', auto_ab=True, hold_ba=True)
            self.prov_sock, self.peer_sock = a, b
            a.short_reads = short_reads
            if prebuffer:
                a.rx.rcvbuf += prebuffer
            self.extra_socks = []

            def on_extra(srv, addr):
                self.extra_socks.append(srv)
                self.connects += 1
            net.listen(PEER_ADDR, on_extra, auto_ab=True, hold_ba=True)
            self.provider = dulprovider.DULServiceProvider(set(store_in_file), get_file_cb, a,
                                                           max_pdu_length)
        else:
            def on_conn(srv, addr):
                self.peer_sock = srv
                self.prov_sock = srv.peer
                self.prov_sock.short_reads = short_reads
                self.connects += 1
                if prebuffer:
                    self.prov_sock.rx.rcvbuf += prebuffer
            net.listen(PEER_ADDR, on_conn, auto_ab=True, hold_ba=True)
            self.provider = dulprovider.DULServiceProvider(set(store_in_file), get_file_cb, None,
                                                           max_pdu_length)
        self.task = self.provider._sim_task
        self.sm = self.provider.state_machine

    # ---------------------------------------------------------------- peer side
    def peer_bytes(self, b):
        if self.prov_sock is None:
            raise sched.HarnessError('peer_bytes before connection')
        self.sim.log('peer_bytes', len(b), zlib.crc32(bytes(b)))
        self.prov_sock.rx.rcvbuf += b

    def peer_fin(self):
        self.sim.log('peer_fin')
        self.prov_sock.rx.fin = True
        self.peer_sock.shut_wr = True

    def peer_rst(self):
        self.sim.log('peer_rst')
        self.prov_sock.reset()
        self.sim.bump('fault.rst')

    def peer_rst_behind(self):
        """The peer resets the connection right behind what it has sent (close with SO_LINGER 0
        or with unread data): the bytes already received stay readable, then the reset shows."""
        self.sim.log('peer_rst_behind')
        rx = self.prov_sock.rx
        if rx.segs:
            rx.rst_after_segs = True
        else:
            rx.rst = True
        self.peer_sock.closed = True
        self.sim.bump('fault.rst_behind')

    def wire_take(self):
        """Bytes the provider wrote since the last call."""
        if self.peer_sock is None:
            return b''
        buf = self.peer_sock.rx.rcvbuf
        b = bytes(buf)
        del buf[:]
        self.wire_bytes += b
        return b

    def provider_closed_socket(self):
        return self.prov_sock is not None and self.prov_sock.closed

    # ---------------------------------------------------------------- user side
    def user(self, primitive):
        self.sim.log('user', type(primitive).__name__)
        self.provider.send(primitive)

    def take_indications(self):
        q = self.provider.to_service_user
        items = list(q.items)
        del q.items[:]
        self.indications.extend(items)
        return items

    # ---------------------------------------------------------------- observation
    def state(self):
        return STATE_NAMES[self.sm.current_state]

    def timer_running(self):
        return self.provider.timer._start_time is not None

    def sock_gone(self):
        return self.provider.dul_socket is None

    def loop_dead(self):
        return self.task.done

    def fingerprint(self):
        p = self.provider
        ps = self.prov_sock
        return (self.sm.current_state, p.dul_socket is None, p.timer._start_time,
                ps.tx.total_written if ps is not None else -1,
                getattr(p.to_service_user, 'nput', 0), len(p.from_service_user.items),
                len(p.raw_pdu), p.dimse_gen is None, len(p.event), self.task.done,
                ps.closed if ps is not None else None)

    def _pending(self):
        p = self.provider
        if self.task.done:
            return False
        if p.from_service_user.items or p.dimse_gen is not None or p.event:
            return True
        if self.task.kind in ('sleep', 'preempt'):
            # the provider thread is in the middle of something: a line-level pre-emption
            # (or a park inside one) suspended it between two seams
            return True
        ps = self.prov_sock
        if ps is not None and not ps.closed and p.dul_socket is not None:
            if ps.rx.rcvbuf:
                return True
        return False

    def settle(self, limit=30.0, window=3, extra=None):
        """Run until quiescent: fingerprint unchanged and nothing pending for `window`
        select periods.  Returns False if that did not happen within `limit` virtual s."""
        sim = self.sim
        stable = 0
        t_end = sim.now + limit
        fp = self.fingerprint()
        while sim.now < t_end:
            sim.run_for(0.05)
            nfp = self.fingerprint()
            busy = self._pending() or (extra is not None and extra())
            if nfp == fp and not busy:
                stable += 1
                if stable >= window:
                    return True
            else:
                stable = 0
                fp = nfp
        return False

    def advance(self, dt):
        self.sim.run_for(dt)

    # ---------------------------------------------------------------- teardown
    def close(self):
        if self.closed:
            return
        self.closed = True
        try:
            self.provider.is_killed = True
            self.sim.unwind()
        finally:
            seams.uninstall()
            gc.enable()

    def __enter__(self):
        return self

    def __exit__(self, *a):
        self.close()


def describe_indication(x):
    """Short kind label for an item handed to the user."""
    if isinstance(x, tuple):
        return 'DIMSE:%s' % type(x[0]).__name__
    t = getattr(x, 'pdu_type', None)
    return rc.PDU_NAMES.get(t, type(x).__name__)
