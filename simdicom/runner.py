"""Fan cases out to a fork pool, classify signatures against known findings, minimise and
re-verify violations, write evidence.  Exit codes: 0 held / 1 VIOLATION / 2 harness error."""
import argparse
import concurrent.futures as cf
import faulthandler
import hashlib
import importlib
import json
import multiprocessing
import os
import subprocess
import sys
import time
import traceback

VERIF = os.path.dirname(os.path.dirname(os.path.abspath(__file__)))
KNOWN = os.path.join(VERIF, 'known_findings.json')
EVID = os.path.join(VERIF, 'evidence')
REPLAYS = os.environ.get('VERIF_REPLAYS') or os.path.join(VERIF, 'replays')

CASE_WALL_S = 120
MAX_REPORTED = 6
MAX_CANDIDATES = 4

REAL = ['pynetdicom2/* from /repo (dulprovider run loop, fsm, pdu/userdataitems codecs, '
        'dimsemessages, asceprovider, applicationentity, sopclass, statuses)', 'pydicom', 'six',
        'socketserver request-handler plumbing (finish_request/StreamRequestHandler/'
        'shutdown_request)']
STUB = ['OS thread scheduler (baton scheduler)', 'clock (virtual)', 'TCP stack (SimSocket)',
        'select', 'queue.Queue / threading.Event (SimQueue/SimEvent)',
        'listening socket and accept loop', 'file system where used (SimFS)']


def load_known(prop):
    try:
        with open(KNOWN) as f:
            data = json.load(f)
    except FileNotFoundError:
        return {}, []
    open_ = {}
    fixed = []
    for e in data.get('findings', []):
        if e.get('property') != prop:
            continue
        if e.get('status') == 'open':
            open_[e['signature']] = e
        else:
            fixed.append(e)
    return open_, fixed


def _worker_init():
    faulthandler.enable()


def _run_chunk(modname, cases):
    mod = importlib.import_module(modname)
    out = []
    for case in cases:
        faulthandler.dump_traceback_later(CASE_WALL_S, exit=True)
        t0 = time.time()
        from . import sched as _sched
        del _sched.FINISHED[:]
        try:
            r = mod.run_case(case)
        except BaseException as e:  # pylint: disable=broad-except
            r = {'harness_error': '%s: %s' % (type(e).__name__, e), 'tb': traceback.format_exc(),
                 'violations': [], 'stats': {}}
        finally:
            faulthandler.cancel_dump_traceback_later()
        r['case'] = case
        r['wall'] = time.time() - t0
        r['sims'] = list(_sched.FINISHED)
        out.append(r)
    return out


def chunked(it, n):
    buf = []
    for x in it:
        buf.append(x)
        if len(buf) >= n:
            yield buf
            buf = []
    if buf:
        yield buf


class Agg(object):
    def __init__(self):
        self.evaluations = 0
        self.nontrivial_sigs = set()
        self.stats = {}
        self.samples = []
        self.vsecs = 0.0
        self.by_sig = {}
        self.harness_errors = []
        self.steps = 0
        self.states = set()
        self.extra_sets = {}
        self.interleavings = set()
        self.sims = 0
        self.decisions = 0
        self.sim_steps = 0
        self.sim_vsecs = 0.0

    def add(self, r):
        self.evaluations += 1
        for sig, steps, vsecs, ndec in r.get('sims', ()):
            self.interleavings.add(sig)
            self.sims += 1
            self.decisions += ndec
            self.sim_steps += steps
            self.sim_vsecs += vsecs
        if r.get('harness_error'):
            self.harness_errors.append((r['case'], r['harness_error'], r.get('tb', '')))
            return
        for k, v in r.get('stats', {}).items():
            self.stats[k] = self.stats.get(k, 0) + v
        self.vsecs += r.get('vsecs', 0.0)
        self.steps += r.get('steps', 0)
        if r.get('nontrivial') and r.get('sched_sig'):
            self.nontrivial_sigs.add(r['sched_sig'])
        for s in r.get('states', ()):
            self.states.add(s)
        for k, vals in r.get('sets', {}).items():
            self.extra_sets.setdefault(k, set()).update(vals)
        if r.get('sample') is not None and len(self.samples) < 4:
            self.samples.append(r['sample'])
        for v in r.get('violations', []):
            self.by_sig.setdefault(v['sig'], []).append((v.pop('explicit', None) or r['case'], v, None))


def run_cases(mod, modname, cases_iter, jobs, budget_s, chunk=8):
    agg = Agg()
    t0 = time.time()
    complete = True
    ctx = multiprocessing.get_context('fork')
    it = chunked(cases_iter, chunk)
    exhausted = False
    redo = []            # chunks whose worker pool broke (an interpreter-level crash): run again
    died = {}            # chunk key -> how often a pool broke while it was outstanding
    restarts = 0
    while True:
        broken = False
        with cf.ProcessPoolExecutor(max_workers=jobs, mp_context=ctx,
                                    initializer=_worker_init) as ex:
            pending = {}
            while True:
                while len(pending) < jobs * 3:
                    if redo:
                        c = redo.pop()
                    elif exhausted:
                        break
                    elif time.time() - t0 > budget_s:
                        exhausted = True
                        complete = False
                        break
                    else:
                        try:
                            c = next(it)
                        except StopIteration:
                            exhausted = True
                            break
                    pending[ex.submit(_run_chunk, modname, c)] = c
                if not pending:
                    break
                done, _ = cf.wait(list(pending), return_when=cf.FIRST_COMPLETED)
                for f in done:
                    c = pending.pop(f)
                    try:
                        results = f.result()
                    except cf.process.BrokenProcessPool:
                        # a worker process died (not an exception of the code under test, which
                        # is pure Python and is caught inside the worker): everything that was
                        # outstanding is run again in a fresh pool, a chunk at most twice
                        broken = True
                        for c2 in [c] + list(pending.values()):
                            key = json.dumps(c2, sort_keys=True, default=str)
                            died[key] = died.get(key, 0) + 1
                            if died[key] > 2:
                                raise
                            redo.append(c2)
                        pending.clear()
                        break
                    for r in results:
                        agg.add(r)
                if broken:
                    break
        if not broken:
            break
        restarts += 1
        agg.stats['harness.worker_pool_restarts'] = restarts
        if restarts > 3:
            raise RuntimeError('worker pool broke %d times' % restarts)
    return agg, complete, time.time() - t0


# simpler values per parameter name, simplest first (used when a workload has no shrink() of
# its own): fewer parties, fewer operations, smaller data, optional faults and variants off
GENERIC_SHRINK = {
    'fault': [None], 'stall': [False], 'twice': [False], 'in_file': [False], 'align': [False],
    'same_uid': [False], 'mixed_ts': [False], 'disturb': [0, None, False], 'connect': [None],
    'dribble': [False, None], 'kill': [None], 'rst_at_send': [None], 'fin_now': [False],
    'nclients': [1, 2], 'nstores': [1, 2], 'npeers': [2], 'nassoc': [1, 2], 'senders': [1],
    'others': [0, 1], 'n': [0, 1, 2, 3], 'size': [0, 10, 100], 'dsize': [0, 8, 64],
    'frags': [1, 3, 8], 'nrq': [1], 'nrsp': [1], 'delay': [0, 0.0], 'pending': ['none'],
    'dest': ['real'], 'source': ['ds'], 'outcome': ['success'],
    'sched': ['uniform'], 'policy': ['uniform'], 'one_write': [True], 'first': [False],
}


def generic_shrink(case):
    if not isinstance(case, dict):
        return
    for key in sorted(case):
        cur = case[key]
        for val in GENERIC_SHRINK.get(key, ()):
            if val == cur and type(val) is type(cur):
                break                      # already at (or below) this level
            cand = dict(case)
            cand[key] = val
            if key == 'n' and isinstance(case.get('outcomes'), list):
                if not isinstance(cur, int) or val >= cur:
                    continue
                cand['outcomes'] = case['outcomes'][:val]
            elif key in ('n', 'nclients', 'nstores', 'npeers', 'nassoc', 'senders', 'others',
                         'size', 'dsize', 'frags', 'nrq', 'nrsp') and \
                    isinstance(cur, (int, float)) and not isinstance(cur, bool) and val >= cur:
                continue
            yield cand
    for key in ('ctx', 'calls', 'outcomes'):
        cur = case.get(key)
        if isinstance(cur, list) and len(cur) > 1 and not (key == 'outcomes' and 'n' in case):
            for i in range(min(len(cur), 12)):
                cand = dict(case)
                cand[key] = cur[:i] + cur[i + 1:]
                yield cand


def _close_leftovers():
    try:
        from . import world
        world.close_leftovers()
    except BaseException:  # pylint: disable=broad-except
        pass


def minimise(mod, case, sig, wall_s=60):
    """Shrink the case (workload-specific candidates, else the generic parameter shrinker)
    while the same signature recurs."""
    t0 = time.time()
    shrink = getattr(mod, 'shrink', None) or generic_shrink
    best = case
    progress = True
    while progress and time.time() - t0 < wall_s:
        progress = False
        for cand in shrink(best):
            if time.time() - t0 > wall_s:
                break
            try:
                r = mod.run_case(cand)
            except BaseException:  # pylint: disable=broad-except
                _close_leftovers()
                continue
            if any(v['sig'] == sig for v in r.get('violations', [])):
                best = cand
                progress = True
                break
    return best


def capture_traces(mod, case, sig):
    """Run the case once more recording every simulator's decision trace.
    -> dict seed -> list of decisions (only if the signature recurs)."""
    from . import sched
    sched.CAPTURE = {}
    try:
        r = mod.run_case(case)
        sims = dict(sched.CAPTURE)
    finally:
        sched.CAPTURE = None
    if not any(v['sig'] == sig for v in r.get('violations', [])):
        return None
    return {k: list(s.trace) for k, s in sims.items() if s.trace}


def _holds(mod, case, sig, forced):
    from . import sched
    sched.FORCED = forced
    try:
        r = mod.run_case(case)
    except BaseException:  # pylint: disable=broad-except
        _close_leftovers()
        return False
    finally:
        sched.FORCED = None
    return any(v['sig'] == sig for v in r.get('violations', []))


def minimise_traces(mod, case, sig, traces, wall_s=40):
    """Shorten each decision trace to the shortest prefix that still reproduces the signature;
    decisions beyond the prefix take the default (first enabled task, whole-segment delivery,
    optional faults off)."""
    t0 = time.time()
    best = dict(traces)
    if not _holds(mod, case, sig, best):
        return None
    for seed in sorted(best, key=lambda k: -len(best[k])):
        lo, hi = 0, len(best[seed])
        while lo < hi and time.time() - t0 < wall_s:
            mid = (lo + hi) // 2
            trial = dict(best)
            trial[seed] = best[seed][:mid]
            if _holds(mod, case, sig, trial):
                hi = mid
            else:
                lo = mid + 1
        trial = dict(best)
        trial[seed] = best[seed][:hi]
        if _holds(mod, case, sig, trial):
            best = trial
    return best


def write_replay(prop, modname, case, sig, detail, traces=None, full_lengths=None):
    os.makedirs(REPLAYS, exist_ok=True)
    h = hashlib.sha1((sig + json.dumps(case, sort_keys=True)).encode()).hexdigest()[:12]
    path = os.path.join(REPLAYS, '%s-%s.json' % (prop, h))
    with open(path, 'w') as f:
        json.dump({'property': prop, 'workload': modname, 'case': case, 'signature': sig,
                   'detail': detail, 'seed': case.get('seed') if isinstance(case, dict) else None,
                   'decision_traces': traces,
                   'decision_traces_note': 'per simulator seed: the minimised prefix of the '
                   'recorded decisions (scheduling choices, delivery sizes, fault coins); every '
                   'later decision takes the default. null = replay from the PRNG seed alone.',
                   'recorded_trace_lengths': full_lengths},
                  f, indent=1, sort_keys=True)
    return path


def replay(prop, modname, path):
    with open(path) as f:
        rep = json.load(f)
    mod = importlib.import_module(rep.get('workload', modname))
    from . import sched
    sched.FORCED = rep.get('decision_traces') or None
    try:
        r = mod.run_case(rep['case'])
    finally:
        sched.FORCED = None
    sigs = [v['sig'] for v in r.get('violations', [])]
    print('replay signatures: %s' % sigs)
    if rep['signature'] in sigs:
        for v in r['violations']:
            if v['sig'] == rep['signature']:
                print('REPRODUCED property=%s signature=%s' % (prop, v['sig']))
                print(v.get('detail', ''))
        print('VIOLATION property=%s replay=%s' % (prop, path))
        return 1
    print('NOT-REPRODUCED expected=%s' % rep['signature'])
    return 0


def main(prop, argv):
    ap = argparse.ArgumentParser()
    ap.add_argument('--tier', default=os.environ.get('VERIF_TIER', 'quick'))
    ap.add_argument('--replay')
    ap.add_argument('--seed', type=int, default=int(os.environ.get('VERIF_SEED', '0') or 0))
    ap.add_argument('--jobs', type=int, default=int(os.environ.get('VERIF_JOBS', '0') or 0))
    ap.add_argument('--budget', type=float, default=float(os.environ.get('VERIF_BUDGET_S', '0') or 0))
    ap.add_argument('--no-evidence', action='store_true')
    ap.add_argument('--digests', help='write per-case digests to this file (determinism self-test)')
    ap.add_argument('--limit', type=int, default=0)
    ap.add_argument('--stride', type=int, default=1)
    args = ap.parse_args(argv)
    modname = 'simdicom.workloads.' + prop.lower()
    mod = importlib.import_module(modname)
    if args.replay:
        return replay(prop, modname, args.replay)
    tier = args.tier if args.tier in ('quick', 'thorough') else 'quick'
    jobs = args.jobs or min(16, os.cpu_count() or 4)
    budget = args.budget or getattr(mod, 'BUDGET', {}).get(tier, 40 if tier == 'quick' else 600)
    print('check %s tier=%s seed=%d jobs=%d budget=%ss repo=%s' % (
        prop, tier, args.seed, jobs, budget, os.environ.get('VERIF_REPO', '/repo')))
    sys.stdout.flush()
    cases = mod.cases(tier, args.seed)
    if args.stride > 1:
        import itertools
        cases = itertools.islice(cases, 0, None, args.stride)
    if args.limit:
        import itertools
        cases = itertools.islice(cases, args.limit)
    if args.digests:
        out = []
        cases = list(cases)
        if jobs > 1:
            ctx = multiprocessing.get_context('fork')
            with cf.ProcessPoolExecutor(max_workers=jobs, mp_context=ctx) as ex:
                futs = [ex.submit(_run_chunk, modname, c) for c in chunked(cases, 4)]
                for f in futs:
                    for r in f.result():
                        out.append((json.dumps(r['case'], sort_keys=True), r.get('digest'),
                                    r.get('harness_error'),
                                    sorted(v['sig'] for v in r.get('violations', []))))
        else:
            for case in cases:
                r = mod.run_case(case)
                out.append((json.dumps(case, sort_keys=True), r.get('digest'), None,
                            sorted(v['sig'] for v in r.get('violations', []))))
        out.sort()
        with open(args.digests, 'w') as f:
            json.dump(out, f)
        return 0
    agg, complete, wall = run_cases(mod, modname, cases, jobs, budget,
                                    chunk=getattr(mod, 'CHUNK', 8))
    known_open, fixed = load_known(prop)
    rc = 0
    if agg.harness_errors:
        rc = 2
        for case, msg, tb in agg.harness_errors[:5]:
            print('HARNESS-ERROR %s case=%s' % (msg, json.dumps(case, sort_keys=True)[:400]))
            print(tb)
    unknown = 0
    unreproduced = 0
    verified = 0
    attempted = 0
    known_seen = []
    for sig, occ in sorted(agg.by_sig.items()):
        if sig in known_open:
            known_seen.append(sig)
            print('KNOWN-FINDING: property=%s %s [%s] (%d occurrences)' % (
                prop, known_open[sig].get('what', ''), sig, len(occ)))
            continue
        unknown += 1
        if attempted >= MAX_REPORTED:
            print('signature (not minimised, over the reporting cap): %s (%d occurrences)' % (
                sig, len(occ)))
            if rc == 0:
                rc = 1
            continue
        # An observation may depend on what earlier cases left behind in the worker process
        # (module-level state in the library under test).  Such an observation is no verdict
        # by itself: up to MAX_CANDIDATES cases showing the signature are tried, and only one
        # that shows it again on its own - in this process AND from its replay file in a fresh
        # interpreter - is reported.
        done = False
        tried = 0
        counted = False
        step = max(1, len(occ) // MAX_CANDIDATES)
        for case, v, _ in occ[::step][:MAX_CANDIDATES]:
            tried += 1
            # cheap first look: does the case show the signature when it is run on its own in
            # this process?
            try:
                r0 = mod.run_case(case)
            except BaseException:  # pylint: disable=broad-except
                _close_leftovers()
                r0 = {}
            if not any(vv['sig'] == sig for vv in r0.get('violations', [])):
                continue
            if not counted:
                attempted += 1
                counted = True
            # the first candidate is minimised; if its minimised form does not replay in a fresh
            # interpreter (the minimiser itself runs in this - by now used - process), and for
            # every further candidate, the case is written as it was generated
            forms = ['minimised', 'as-generated'] if tried == 1 else ['as-generated']
            for form in forms:
                det = v.get('detail', '')
                traces = full = None
                small = case
                if form == 'minimised':
                    small = minimise(mod, case, sig)
                    r2 = mod.run_case(small)
                    for vv in r2.get('violations', []):
                        if vv['sig'] == sig:
                            det = vv.get('detail', det)
                    try:
                        rec = capture_traces(mod, small, sig)
                        if rec:
                            full = {k: len(t) for k, t in rec.items()}
                            traces = minimise_traces(mod, small, sig, rec)
                    except BaseException:  # pylint: disable=broad-except
                        traces = None
                path = write_replay(prop, modname, small, sig, det, traces, full)
                # re-verify in a fresh interpreter
                env = dict(os.environ)
                p = subprocess.run([sys.executable, os.path.join(VERIF, 'check'), prop,
                                    '--replay', path], capture_output=True, text=True, env=env,
                                   timeout=600)
                if p.returncode == 1:
                    done = True
                    break
                # seen in a worker process but not reproduced from the replay file in a fresh
                # interpreter: never reported as a verdict on its own
                print('not reproduced (%s): replay of %s gave rc=%d\n%s\n%s' % (
                    form, path, p.returncode, p.stdout[-600:], p.stderr[-400:]))
                try:
                    os.unlink(path)
                except OSError:
                    pass
            if done:
                verified += 1
                print('signature: %s (%d occurrences)' % (sig, len(occ)))
                print(det)
                print('VIOLATION property=%s replay=%s' % (prop, path))
                if rc == 0:
                    rc = 1
                break
        if not done:
            print('UNREPRODUCED signature %s (%d occurrences): none of %d cases tried showed it '
                  'again when run on its own' % (sig, len(occ), tried))
            unreproduced += 1
    if unreproduced and not verified:
        # nothing but unreproducible observations (and possibly unverified ones over the
        # reporting cap): a harness problem, not a verdict - never exit 1 without a VIOLATION line
        rc = 2
    if verified:
        # a violation that replays in a fresh interpreter is a verdict, whatever else went wrong
        # in other cases of the run (a change that breaks the property often also makes some
        # cases run into the step budget)
        rc = 1
    if not args.no_evidence and rc != 2:
        write_evidence(prop, mod, tier, args.seed, agg, complete, wall, unknown, known_seen, jobs)
    print('%s: %d evaluations, %d distinct non-trivial, %d unknown signatures, %d known, '
          'complete=%s, %.1fs' % (prop, agg.evaluations, len(agg.nontrivial_sigs), unknown,
                                  len(known_seen), complete, wall))
    return rc


def write_evidence(prop, mod, tier, seed, agg, complete, wall, unknown, known_seen, jobs):
    os.makedirs(EVID, exist_ok=True)
    faults = {k: v for k, v in sorted(agg.stats.items()) if k.startswith(('fault.', 'net.', 'fs.'))}
    probes = {k: v for k, v in sorted(agg.stats.items()) if k.startswith('probe.')}
    other = {k: v for k, v in sorted(agg.stats.items())
             if not k.startswith(('fault.', 'net.', 'fs.', 'probe.'))}
    cov = {
        'evaluations': agg.evaluations,
        'distinct_nontrivial': len(agg.nontrivial_sigs),
        'rule': getattr(mod, 'RULE', ''),
        'samples': agg.samples or [{'note': 'no sample recorded'}],
        'exhaustive': bool(getattr(mod, 'EXHAUSTIVE', {}).get(tier, False) and complete),
        'generator_completed_within_budget': complete,
        'runs_per_hour': int(agg.evaluations / wall * 3600) if wall > 0 else 0,
        'simulated_runs': agg.sims,
        'simulated_runs_per_hour': int(agg.sims / wall * 3600) if wall > 0 else 0,
        'distinct_interleavings': len(agg.interleavings),
        'distinct_interleavings_measure': 'SHA-1 of the sequence of (task role, seam kind | actor) '
                                          'scheduling steps of one simulator run',
        'scheduler_steps': agg.sim_steps,
        'recorded_decisions': agg.decisions,
        'virtual_seconds': round(agg.sim_vsecs, 1),
        'seed_derivation': 'every simulator is seeded with "<workload>/<case seed>..." where the '
                           'case seed derives from VERIF_SEED; one case = one exactly repeatable '
                           'execution',
        'faults_fired': faults,
        'probes': probes,
        'counters': other,
        'real_components': REAL + list(getattr(mod, 'REAL_EXTRA', [])),
        'stub_components': STUB + list(getattr(mod, 'STUB_EXTRA', [])),
        'known_findings_seen': known_seen,
        'workers': jobs,
    }
    if agg.states:
        cov['abstract_provider_states'] = len(agg.states)
        cov['abstract_provider_states_measure'] = ('(protocol state, ARTIM running, receive '
                                                   'buffer empty, decoder mid-message, socket '
                                                   'open) observed at quiescent points')
    for k, s in agg.extra_sets.items():
        cov[k] = len(s)
        cov[k + '_list'] = sorted(s)[:400]
    ev = {
        'property_id': prop, 'tier': tier, 'seed': seed, 'level': mod.LEVEL, 'coverage': cov,
        'assumptions': list(getattr(mod, 'ASSUMPTIONS', [])), 'wall_s': round(wall, 2),
        'violations': unknown,
    }
    with open(os.path.join(EVID, '%s.json' % prop), 'w') as f:
        json.dump(ev, f, indent=1, sort_keys=True, default=str)
