"""Scripted peers (built on R-codec only) that run as simulator tasks, and the wire monitor that
checks everything a library endpoint transmits."""
from . import refcodec as rc


class PeerClosed(Exception):
    pass


class Peer(object):
    """Byte-level endpoint: strict PDU reader + raw writer on a SimSocket."""

    def __init__(self, sim, sock, name='peer'):
        self.sim = sim
        self.sock = sock
        self.name = name
        self.buf = b''
        self.received = []        # parsed PDUs in order of arrival
        self.received_raw = []
        self.sent = []
        self.eof = False
        self.reset = False
        self.reasm = rc.Reassembler()
        self.messages = []        # completed DIMSE messages received (dicts from Reassembler)
        self.pdata = []           # (index of message or None, parsed P-DATA-TF PDU)
        self.errors = []          # protocol violations seen in what the other side sent
        self.recv_size = 65536

    def send(self, raw):
        self.sent.append(raw)
        self.sock.sendall(raw)

    def read_pdu(self, timeout=None):
        """Next PDU (parsed dict) or None at EOF/reset."""
        while True:
            raws, rem = rc.split_stream(self.buf)
            if raws:
                raw = raws[0]
                self.buf = self.buf[len(raw):]
                self.received_raw.append(raw)
                try:
                    p = rc.parse_pdu(raw)
                except rc.Malformed as e:
                    p = {'type': raw[0], 'kind': 'MALFORMED', 'error': str(e), 'raw': raw}
                    self.errors.append('malformed PDU: %s' % e)
                p['t'] = self.sim.now
                self.received.append(p)
                return p
            if self.eof or self.reset:
                return None
            old = self.sock.timeout
            self.sock.timeout = timeout
            try:
                data = self.sock.recv(self.recv_size)
            except ConnectionResetError:
                self.reset = True
                return None
            except OSError as e:   # socket.timeout is an OSError subclass
                if 'timed out' in str(e):
                    return 'timeout'
                self.reset = True
                return None
            finally:
                self.sock.timeout = old
            if not data:
                self.eof = True
                if self.buf:
                    self.errors.append('EOF inside a PDU (%d bytes buffered)' % len(self.buf))
                return None
            self.buf += data

    def feed_pdata(self, p):
        """Run a received P-DATA-TF through the reference reassembler; returns completed msgs."""
        out = []
        for pdv in p['pdvs']:
            try:
                m = self.reasm.feed(pdv)
            except rc.Malformed as e:
                self.errors.append('PDV stream: %s' % e)
                self.reasm = rc.Reassembler()
                continue
            if m is not None:
                m['t'] = self.sim.now
                self.messages.append(m)
                out.append(m)
        return out

    def close(self):
        self.sock.close()


def default_accept(contexts):
    """Accept every proposed context with its first transfer syntax."""
    return [(pcid, 0, tss[0]) for pcid, ab, tss in contexts]


class ScriptedAcceptor(Peer):
    """Peer playing the association acceptor.  `on_message(peer, msg)` is called for every
    complete DIMSE message and may answer with peer.send_message(...)."""

    def __init__(self, sim, sock, accept=default_accept, max_length=16384, on_message=None,
                 reply='ac', rj=(1, 1, 1), on_established=None, close_after_release=True,
                 called=None, calling=None, on_pdu=None, ac_user_info=None):
        Peer.__init__(self, sim, sock, 'acceptor-peer')
        self.on_pdu = on_pdu
        self.ac_user_info = ac_user_info      # bytes of the User Information item of the AC
        self.accept = accept
        self.max_length = max_length
        self.on_message = on_message
        self.reply = reply
        self.rj = rj
        self.rq = None
        self.on_established = on_established
        self.close_after_release = close_after_release
        self.ended = None
        self.peer_max = None
        self.results = None

    def send_message(self, pcid, fields, data=None, max_length=None, per_pdu=1):
        cmd = rc.enc_command(fields)
        ml = self.peer_max if max_length is None else max_length
        pdvs = rc.fragment_message(pcid, cmd, data, ml)
        for i in range(0, len(pdvs), per_pdu):
            self.send(rc.enc_pdata(pdvs[i:i + per_pdu]))

    def run(self):
        p = self.read_pdu()
        if p is None or p == 'timeout':
            self.ended = 'eof-before-rq'
            self.close()
            return
        if p['kind'] != 'A-ASSOCIATE-RQ':
            self.errors.append('first PDU is %s' % p['kind'])
            self.ended = 'bad-first-pdu'
            self.close()
            return
        self.rq = p
        for x in p['user_info'] or ():
            if x[0] == 'max_length':
                self.peer_max = x[1]
        if self.reply == 'rj':
            self.send(rc.enc_assoc_rj(*self.rj))
            self.ended = 'rejected'
            self.wait_close()
            return
        if self.reply == 'silent':
            self.ended = 'silent'
            self.read_pdu()
            return
        self.results = self.accept(p['contexts'])
        self.send(rc.enc_assoc_ac(called=p['called'], calling=p['calling'], results=self.results,
                                  max_length=self.max_length, user_info=self.ac_user_info))
        if self.on_established is not None:
            self.on_established(self)
        self.serve()

    def serve(self):
        while True:
            p = self.read_pdu()
            if p is None or p == 'timeout':
                self.ended = self.ended or 'eof'
                self.close()
                return
            k = p['kind']
            if k == 'P-DATA-TF':
                self.pdata.append(p)
                if self.on_pdu is not None:
                    self.on_pdu(self, p)
                for m in self.feed_pdata(p):
                    if self.on_message is not None:
                        self.on_message(self, m)
            elif k == 'A-RELEASE-RQ':
                self.send(rc.enc_release_rp())
                self.ended = 'released'
                if self.close_after_release:
                    self.wait_close()
                    return
            elif k == 'A-ABORT':
                self.ended = 'aborted'
                self.close()
                return
            elif k == 'A-RELEASE-RP':
                self.ended = 'release-confirmed'
                self.close()
                return
            else:
                self.errors.append('unexpected %s' % k)

    def wait_close(self):
        # after release/reject the requestor closes; wait for it (bounded), then close
        p = self.read_pdu(timeout=30.0)
        while p is not None and p != 'timeout':
            p = self.read_pdu(timeout=30.0)
        self.close()


class ScriptedRequestor(Peer):
    """Peer playing the association requestor against a real AE (acceptor)."""

    def __init__(self, sim, net, addr, contexts, max_length=16384, called='SRV', calling='CLI',
                 script=None, extra_user=(), app_context=rc.APP_CONTEXT, before_rq=None):
        sock = net.socket()
        Peer.__init__(self, sim, sock, 'requestor-peer')
        self.net = net
        self.addr = addr
        self.contexts = contexts
        self.max_length = max_length
        self.called = called
        self.calling = calling
        self.script = script
        self.ac = None
        self.rj = None
        self.peer_max = None
        self.ended = None
        self.extra_user = extra_user
        self.app_context = app_context
        self.connect_error = None
        self.before_rq = before_rq

    def send_message(self, pcid, fields, data=None, max_length=None, per_pdu=1, groups=None):
        cmd = rc.enc_command(fields)
        ml = self.peer_max if max_length is None else max_length
        pdvs = rc.fragment_message(pcid, cmd, data, ml)
        if groups is not None:
            i = 0
            for g in groups:
                self.send(rc.enc_pdata(pdvs[i:i + g]))
                i += g
            if i < len(pdvs):
                self.send(rc.enc_pdata(pdvs[i:]))
            return
        for i in range(0, len(pdvs), per_pdu):
            self.send(rc.enc_pdata(pdvs[i:i + per_pdu]))

    def read_message(self, timeout=60.0):
        """Read PDUs until one DIMSE message is complete; returns it, or the non-P-DATA PDU that
        arrived instead, or None at EOF."""
        while True:
            p = self.read_pdu(timeout=timeout)
            if p is None or p == 'timeout':
                return p
            if p['kind'] != 'P-DATA-TF':
                return p
            self.pdata.append(p)
            ms = self.feed_pdata(p)
            if ms:
                return ms[0]

    def associate(self):
        try:
            self.sock.connect(self.addr)
        except OSError as e:
            self.connect_error = e
            return None
        if self.before_rq is not None:
            self.before_rq()        # connected, nothing sent yet
        self.send(rc.enc_assoc_rq(called=self.called, calling=self.calling,
                                  contexts=self.contexts, max_length=self.max_length,
                                  extra_user=self.extra_user, app_context=self.app_context))
        p = self.read_pdu(timeout=60.0)
        if p is None or p == 'timeout':
            return p
        if p['kind'] == 'A-ASSOCIATE-AC':
            self.ac = p
            for x in p['user_info'] or ():
                if x[0] == 'max_length':
                    self.peer_max = x[1]
        elif p['kind'] == 'A-ASSOCIATE-RJ':
            self.rj = p
        return p

    def release(self):
        self.send(rc.enc_release_rq())
        p = self.read_pdu(timeout=60.0)
        while isinstance(p, dict) and p['kind'] == 'P-DATA-TF':
            self.pdata.append(p)
            self.feed_pdata(p)
            p = self.read_pdu(timeout=60.0)
        self.close()
        return p

    def run(self):
        try:
            self.script(self)
        finally:
            if not self.sock.closed:
                self.close()


# ------------------------------------------------------------------------------ wire monitor

def check_fragmentation(pdus, max_length, expect_pcid=None):
    """C06 invariants over the P-DATA-TF PDUs of ONE message (parsed, in order).
    -> (problems, command bytes, data bytes or None)"""
    problems = []
    cmd, data = [], []
    seen_last_cmd = seen_last_data = False
    seen_data = False
    n = 0
    for p in pdus:
        if max_length and p['length'] > max_length:
            problems.append('pdu-too-long length=%d max=%d' % (p['length'], max_length))
        if not p['pdvs']:
            problems.append('empty-p-data-tf')
        for pcid, mch, payload in p['pdvs']:
            n += 1
            if expect_pcid is not None and pcid != expect_pcid:
                problems.append('wrong-context-id got=%d want=%d' % (pcid, expect_pcid))
            if mch & ~3:
                problems.append('bad-control-header %02x' % mch)
            if not payload:
                problems.append('empty-fragment')
            is_cmd = bool(mch & 1)
            last = bool(mch & 2)
            if is_cmd:
                if seen_data:
                    problems.append('command-after-data')
                if seen_last_cmd:
                    problems.append('fragment-after-last-command-fragment')
                cmd.append(payload)
                if last:
                    seen_last_cmd = True
            else:
                seen_data = True
                if not seen_last_cmd:
                    problems.append('data-before-last-command-fragment')
                if seen_last_data:
                    problems.append('fragment-after-last-data-fragment')
                data.append(payload)
                if last:
                    seen_last_data = True
    if not seen_last_cmd:
        problems.append('no-last-command-fragment')
    if seen_data and not seen_last_data:
        problems.append('no-last-data-fragment')
    return problems, b''.join(cmd), (b''.join(data) if seen_data else None)


def group_messages(pdata_pdus):
    """Split a sequence of parsed P-DATA-TF PDUs into per-message groups using only the
    control-header bits and the Command Data Set Type of each completed command (R-dimse)."""
    groups = []
    cur = []
    re = rc.Reassembler()
    for p in pdata_pdus:
        cur.append(p)
        done = False
        for pdv in p['pdvs']:
            try:
                if re.feed(pdv) is not None:
                    done = True
            except rc.Malformed:
                re = rc.Reassembler()
                done = True
        if done:
            groups.append(cur)
            cur = []
    if cur:
        groups.append(cur)
    return groups
