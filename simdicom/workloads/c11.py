"""C11 -- requester: well-formed proposal; accepted contexts and service lookup agree.
Real ClientAE / AE + AssociationRequester + provider against a scripted acceptor (R-codec)."""
import gc
import itertools
import random

from .. import refcodec as rc, peers
from ..world import SimWorld

PROPERTY = 'C11'
LEVEL = 'exploration'
BUDGET = {'quick': 55, 'thorough': 900}
CHUNK = 8
EXHAUSTIVE = {'quick': False, 'thorough': False}
ADDR = ('peerhost', 104)
RULE = ('cases = sequence of add_scu/add_scp calls (1..4 calls, SOP-class lists of 0..140 classes, '
        'overlapping or not, totals around and beyond 128) x configured transfer syntaxes x '
        'configured maximum length x reply pattern of the scripted acceptor (per context: result '
        '0..4 and, if accepted, which proposed syntax) - every pattern for <= 3 contexts in '
        'thorough, seeded otherwise; non-trivial = >= 2 contexts or a partial acceptance; '
        'distinct = distinct (configuration, reply pattern)'
        '; a second association after reconfiguration answered the other way round, with every class looked up again; unproposable configurations requested twice; series family: 3-8 short-lived entities one after the other with garbage collection in between; replies with an empty User Information item or with further sub-items behind the maximum length')
ASSUMPTIONS = ['a service is expected from get_scu only for classes configured with add_scu',
               'a configuration that cannot be proposed within ids 1..255 must fail with a '
               'library error before anything is written to the connection']
TS3 = [rc.IMPLICIT_LE, rc.EXPLICIT_LE, rc.EXPLICIT_BE]


def _uid(i):
    return '1.2.826.0.1.99.%d' % i


def cases(tier, seed):
    rnd = random.Random('c11/%d' % seed)
    # small configurations with every reply pattern (thorough) / seeded patterns (quick)
    small = [[('scu', [0])], [('scu', [0, 1])], [('scu', [0]), ('scu', [1, 2])],
             [('scu', [0, 1]), ('scp', [2])], [('scu', [0]), ('scp', [0])],
             [('scu', [0, 1]), ('scu', [1, 2])], [('scp', [0, 1])], [('scu', [0, 1, 0])]]
    for cfg in small:
        n_ctx = sum(len(c[1]) for c in cfg)
        for tsn in (1, 2, 3):
            opts = [0, 1, 2, 3, 4] + [10 + k for k in range(1, tsn)]
            pats = list(itertools.product(opts, repeat=min(n_ctx, 3)))
            if tier == 'quick':
                pats = rnd.sample(pats, min(len(pats), 12))
            for pat in pats:
                yield dict(calls=cfg, ts=tsn, maxlen=rnd.choice([0, 7, 16384, 65536]),
                           pattern=list(pat), seed=seed,
                           ac_ui=rnd.choice([None, None, 'bare', 'rich']),
                           reply_order=rnd.choice([None, None, 'reversed', 'accepted-only',
                                                   'shuffled']))
    # a requester object whose first request is rejected and which is asked again: the second
    # A-ASSOCIATE-RQ must be built from the configuration just like the first
    for i in range(40 if tier == 'quick' else 1500):
        k = rnd.choice([1, 2, 3, 10, 40])
        yield dict(retry=True, calls=[('scu', list(range(k)))], ts=rnd.choice([1, 2, 3]),
                   maxlen=rnd.choice([0, 16384]), pattern=None, seed=seed * 100049 + i,
                   late_conf=rnd.choice([0, 0, 1, 3]))
    # several short-lived entities one after the other (the library's own convenience wrappers
    # create one per operation): each request is built from the entity that makes it
    for i in range(60 if tier == 'quick' else 3000):
        yield dict(series=[(rnd.choice([1, 2, 3]), rnd.choice([0, 1, 2]), rnd.choice([1, 2, 5]))
                           for _ in range(rnd.randint(3, 8))],
                   calls=[], ts=0, maxlen=16384, pattern=None, seed=seed * 100057 + i)
    n = 5000 if tier == 'quick' else 150000
    for i in range(n):
        calls = []
        nxt = 0
        for _ in range(rnd.randint(1, 4)):
            k = rnd.choice([0, 1, 2, 3, 5, 20, 60, 64, 127, 128, 129, 140])
            if rnd.random() < 0.3 and nxt:
                start = rnd.randrange(nxt)          # overlap with earlier classes
            else:
                start = nxt
            lst = list(range(start, start + k))
            if lst and rnd.random() < 0.25:
                # the same class named twice inside one call (stacked @sop_classes decorators
                # produce such lists)
                lst.insert(rnd.randrange(len(lst) + 1), rnd.choice(lst))
            calls.append((rnd.choice(['scu', 'scu', 'scp']), lst))
            nxt = max(nxt, start + k)
        calls2 = None
        if rnd.random() < 0.35 and nxt < 100:
            # the entity is reconfigured after its first association and asked again
            calls2 = []
            for _ in range(rnd.randint(1, 2)):
                k = rnd.choice([1, 2, 5])
                calls2.append((rnd.choice(['scu', 'scp', 'scp']), list(range(nxt, nxt + k))))
                nxt += k
        yield dict(calls=calls, ts=rnd.randint(1, 3), maxlen=rnd.choice([0, 7, 128, 16384, 2 ** 32 - 1]),
                   pattern=None, seed=seed * 100003 + i, calls2=calls2,
                   ac_ui=rnd.choice([None, None, None, 'bare', 'rich']),
                   reply_order=rnd.choice([None, None, None, 'reversed', 'accepted-only',
                                           'shuffled']))


def _retry_case(case):
    from pynetdicom2 import applicationentity, exceptions, asceprovider
    world = SimWorld('c11/retry/%s' % case['seed'])
    viol = []

    def v(rule, detail):
        viol.append({'sig': 'C11 %s' % rule, 'detail': '%s\ncase %r' % (detail, _short(case))})
    try:
        ts = TS3[:case['ts']]
        ae = world.make_ae(applicationentity.ClientAE, 'LOCAL_AE', ts, case['maxlen'])
        ae.timeout = 60
        classes = [_uid(c) for c in case['calls'][0][1]]

        def service(asce, ctx, *a):
            return ('service', ctx)
        service.sop_classes = classes
        ae.add_scu(service)
        nconn = {'n': 0}

        def factory(sock):
            nconn['n'] += 1
            return peers.ScriptedAcceptor(world.sim, sock, max_length=16384,
                                          reply='rj' if nconn['n'] == 1 else 'ac', rj=(2, 3, 2))
        world.serve_peer(ADDR, factory)
        out = {}

        def user():
            rq = asceprovider.AssociationRequester(ae, ae.max_pdu_length, {
                'aet': 'REMOTE_AE', 'address': ADDR[0], 'port': ADDR[1]})
            if case.get('late_conf'):
                # the entity is given more to do after this requester was made for it (another
                # thread, or a requester that is kept for later): whichever configuration the
                # request then reflects, request and reply are read against the same one
                def service2(asce, ctx, *a):
                    return ('service', ctx)
                service2.sop_classes = [_uid(500 + c) for c in range(case['late_conf'])]
                ae.add_scu(service2)
            try:
                try:
                    rq.request()
                    out['first'] = 'accepted'
                except exceptions.AssociationRejectedError:
                    out['first'] = 'rejected'
                rq.request()
                out['second'] = 'accepted'
                look = {}
                for c in classes:
                    try:
                        look[c] = rq.get_scu(c)()
                    except exceptions.ClassNotSupportedError:
                        look[c] = 'not-supported'
                out['look'] = look
                rq.release()
            except Exception as e:  # pylint: disable=broad-except
                out['exc'] = e
            finally:
                try:
                    rq.kill()
                except Exception:  # pylint: disable=broad-except
                    pass
        world.spawn(user, 'user')
        world.run(tmax=400)
        world.drain(2.0)
        rqs = [p.rq for p in world.peers if p.rq is not None]
        if out.get('first') != 'rejected' or len(rqs) < 2:
            # the retry itself is not the subject: only judge when it took place
            if 'exc' in out and len(rqs) < 2:
                v('retry-on-the-same-requester-failed exc=%s' % type(out['exc']).__name__,
                  repr(out['exc']))
            return _fin(world, viol, case, classes)
        first, second = rqs[0], rqs[1]
        for name, rq_ in (('first', first), ('second', second)):
            abss = sorted(c[1] for c in rq_['contexts'])
            ids = [c[0] for c in rq_['contexts']]
            if abss != sorted(classes) and not case.get('late_conf'):
                v('classes-not-proposed-exactly-once attempt=%s' % name,
                  'configured %d classes, proposed %r' % (len(classes), abss[:6]))
            if len(set(ids)) != len(ids) or any(i % 2 == 0 or not 1 <= i <= 255 for i in ids):
                v('context-ids-not-distinct-odd-1-255', repr(ids[:20]))
            if rq_['called'] != 'REMOTE_AE' or rq_['calling'] != 'LOCAL_AE':
                v('ae-titles-wrong', repr((rq_['called'], rq_['calling'])))
        if 'look' in out:
            bad = [c for c, g in out['look'].items() if not isinstance(g, tuple)]
            if bad:
                v('lookup-fails-for-accepted-class', 'second attempt: %r' % bad[:4])
        elif 'exc' in out:
            v('retry-on-the-same-requester-failed exc=%s' % type(out['exc']).__name__,
              repr(out['exc']))
        return _fin(world, viol, case, classes)
    finally:
        world.close()


def _series_case(case):
    from pynetdicom2 import applicationentity, exceptions
    world = SimWorld('c11/series/%s' % case['seed'])
    viol = []

    def v(rule, detail):
        viol.append({'sig': 'C11 %s' % rule, 'detail': '%s\ncase %r' % (detail, case)})
    try:
        world.serve_peer(ADDR, lambda sock: peers.ScriptedAcceptor(
            world.sim, sock, accept=lambda ctxs: [(p_, 0, t_[-1]) for p_, a_, t_ in ctxs],
            max_length=16384))
        outs = []

        def user():
            for k, (tsn, rot, ncls) in enumerate(case['series']):
                ts = (TS3[rot:] + TS3[:rot])[:tsn]
                classes = [_uid(100 * k + c) for c in range(ncls)]
                # not through world.make_ae: nothing but this frame refers to the entity, so it
                # is gone when the next one is made
                ae = applicationentity.ClientAE('LOCAL_AE', list(ts), 16384)
                ae.timeout = 60

                def service(asce, ctx, *a):
                    return ctx
                service.sop_classes = classes
                ae.add_scu(service)
                o = {'ts': ts, 'classes': classes}
                outs.append(o)
                try:
                    with ae.request_association({'aet': 'REMOTE_AE', 'address': ADDR[0],
                                                 'port': ADDR[1]}) as assoc:
                        o['bound'] = dict((c, str(assoc.get_scu(c)().supported_ts))
                                          for c in classes)
                except Exception as e:  # pylint: disable=broad-except
                    o['exc'] = repr(e)
                del ae, service, assoc
                # the collector is switched off while a world exists (its timing is not part of
                # a schedule); here it runs at a fixed point instead, as it would sooner or
                # later in any long-running application
                gc.collect()
        world.spawn(user, 'user')
        world.run(tmax=900)
        world.drain(1.0)
        for k, o in enumerate(outs):
            p = world.peers[k] if k < len(world.peers) else None
            if p is None or p.rq is None or 'exc' in o:
                v('request-failed exc=%s' % str(o.get('exc'))[:24], 'entity %d: %r' % (k, o))
                break
            for c in p.rq['contexts']:
                if sorted(c[2]) != sorted(o['ts']):
                    v('transfer-syntaxes-not-configured-set family=series',
                      'entity %d of the series: ctx %r configured %r' % (k, c, o['ts']))
                    break
            if sorted(c[1] for c in p.rq['contexts']) != sorted(o['classes']):
                v('classes-not-proposed-exactly-once dup=False missing=True',
                  'entity %d of the series: proposed %r' % (k, p.rq['contexts']))
            bad = [(c, t) for c, t in o.get('bound', {}).items() if t not in o['ts']]
            if bad:
                v('lookup-bound-to-wrong-context-or-syntax family=series',
                  'entity %d: %r' % (k, bad))
        return _fin(world, viol, case, [0] * len(case['series']))
    finally:
        world.close()


def run_case(case):
    if case.get('retry'):
        return _retry_case(case)
    if case.get('series'):
        return _series_case(case)
    from pynetdicom2 import applicationentity, exceptions
    rnd = random.Random('c11r/%s' % case['seed'])
    world = SimWorld('c11/%s' % case['seed'])
    viol = []

    def v(rule, detail):
        viol.append({'sig': 'C11 %s' % rule, 'detail': '%s\ncase %r' % (
            detail, _short(case))})
    try:
        ts = TS3[:case['ts']]
        need_scp = any(k == 'scp' for k, _ in case['calls'])
        if need_scp:
            ae = world.make_ae(applicationentity.AE, 'LOCAL_AE', 11113, ts, case['maxlen'])
        else:
            ae = world.make_ae(applicationentity.ClientAE, 'LOCAL_AE', ts, case['maxlen'])
        ae.timeout = 60
        configured = []
        as_scu = set()

        def make_service(kind, classes):
            def service(asce, ctx, *a):
                return ('service', kind, ctx)
            service.sop_classes = [_uid(c) for c in classes]
            return service
        for kind, classes in case['calls']:
            svc = make_service(kind, classes)
            if kind == 'scu':
                ae.add_scu(svc, svc.sop_classes) if rnd.random() < 0.5 else ae.add_scu(svc)
                as_scu.update(svc.sop_classes)
            else:
                ae.add_scp(svc)
            for c in svc.sop_classes:
                if c not in configured:
                    configured.append(c)
        pattern = case['pattern']
        decided = {}

        def accept(contexts):
            res = []
            if 'results' in decided:
                # second association of the same entity: the peer answers the other way round
                # (what it accepted before it refuses now; everything else it accepts)
                was = dict((p_, r_) for p_, r_, _ in decided['results'])
                for pcid, ab, tss in contexts:
                    if was.get(pcid, 1) == 0:
                        res.append((pcid, 3, tss[0]))
                    else:
                        res.append((pcid, 0, tss[-1]))
                decided['results2'] = res
                decided['contexts2'] = contexts
                return res
            for j, (pcid, ab, tss) in enumerate(contexts):
                if pattern is not None:
                    code = pattern[j] if j < len(pattern) else 0
                else:
                    code = rnd.choice([0, 0, 0, 1, 2, 3, 4, 11, 12])
                if code >= 10:
                    k = min(code - 10, len(tss) - 1)
                    res.append((pcid, 0, tss[k]))
                elif code == 0:
                    res.append((pcid, 0, tss[0]))
                else:
                    res.append((pcid, code, tss[0] if rnd.random() < 0.5 else ''))
            decided.setdefault('results', res)
            # the reply need not list its results in the order of the proposal, and some
            # acceptors list only what they accept: results are matched by context id
            if case.get('reply_order') == 'reversed':
                return res[::-1]
            if case.get('reply_order') == 'accepted-only':
                return [r_ for r_ in res if r_[1] == 0]
            if case.get('reply_order') == 'shuffled':
                res2 = list(res)
                rnd.shuffle(res2)
                return res2
            return res
        # what else the reply carries: the usual user information, none of the optional
        # notifications at all (an empty User Information item), or further sub-items behind
        # the maximum length (implementation version name, asynchronous operations window)
        ui = {None: None, 'bare': rc.enc_user_info(max_length=None, impl_uid=None),
              'rich': rc.enc_user_info(16384, '1.2.3.4', 'PEER_V1',
                                       extra=(rc.enc_async(1, 1),))}[case.get('ac_ui')]
        world.serve_peer(ADDR, lambda sock: peers.ScriptedAcceptor(world.sim, sock, accept=accept,
                                                                    max_length=16384,
                                                                    ac_user_info=ui))
        out = {}

        def user():
            try:
                with ae.request_association({'aet': 'REMOTE_AE', 'address': ADDR[0],
                                             'port': ADDR[1]}) as assoc:
                    out['assoc'] = True
                    look = {}
                    for c in configured + [_uid(9999)]:
                        try:
                            f = assoc.get_scu(c)
                            look[c] = f()
                        except exceptions.ClassNotSupportedError:
                            look[c] = 'not-supported'
                        except Exception as e:  # pylint: disable=broad-except
                            look[c] = 'raised:%s' % type(e).__name__
                    out['look'] = look
                    # the requester's own (documented) view of what is usable
                    out['usable'] = dict((str(k), (v_[0], str(v_[1])))
                                         for k, v_ in assoc.sop_classes_as_scu.items())
                    out['usable_ids'] = dict((k, (str(c_.sop_class), str(c_.supported_ts)))
                                             for k, c_ in assoc.accepted_contexts.items())
            except Exception as e:  # pylint: disable=broad-except
                out['exc'] = e
        t = world.spawn(user, 'user')
        world.run(tmax=400)
        world.drain(1.0)
        if case.get('calls2') and len(configured) <= 100 and any(k == 'scp' for k, _ in
                                                                  case['calls2']) <= need_scp:
            # reconfigure, then a second association from the same entity: its request must
            # reflect the configuration as it is NOW
            configured2 = list(configured)
            for kind, classes in case['calls2']:
                if kind == 'scp' and not need_scp:
                    kind = 'scu'
                svc = make_service(kind, classes)
                if kind == 'scu':
                    ae.add_scu(svc)
                else:
                    ae.add_scp(svc)
                for c in svc.sop_classes:
                    if c not in configured2:
                        configured2.append(c)
            n_before = len(world.peers)
            out2 = {}

            def user2():
                try:
                    with ae.request_association({'aet': 'REMOTE_AE', 'address': ADDR[0],
                                                 'port': ADDR[1]}) as assoc2:
                        out2['ok'] = True
                        look2 = {}
                        for c in configured2:
                            try:
                                look2[c] = assoc2.get_scu(c)()
                            except exceptions.ClassNotSupportedError:
                                look2[c] = 'not-supported'
                            except Exception as e:  # pylint: disable=broad-except
                                look2[c] = 'raised:%s' % type(e).__name__
                        out2['look'] = look2
                except Exception as e:  # pylint: disable=broad-except
                    out2['exc'] = e
            world.spawn(user2, 'user2')
            world.run(tmax=400)
            world.drain(1.0)
            p2 = world.peers[n_before] if len(world.peers) > n_before else None
            if p2 is None or p2.rq is None:
                v('second-association-not-requested', repr(out2))
            else:
                abss2 = [c[1] for c in p2.rq['contexts']]
                if sorted(abss2) != sorted(configured2):
                    miss = sorted(set(configured2) - set(abss2))
                    v('second-association-proposal-stale missing=%s extra=%s' % (
                        bool(miss), bool(set(abss2) - set(configured2))),
                      'configured now %d classes, second request proposes %d; missing %r' % (
                          len(configured2), len(abss2), miss[:5]))
                elif 'look' in out2 and 'results2' in decided:
                    # usable contexts of THIS association = what the peer accepted this time
                    ab2 = dict((c_[0], c_[1]) for c_ in p2.rq['contexts'])
                    acc2 = {}
                    for pcid, r, t_ in decided['results2']:
                        if r == 0:
                            acc2.setdefault(ab2.get(pcid), []).append((pcid, t_))
                    scu2 = set(as_scu)
                    for kind, classes in case['calls2']:
                        if kind == 'scu' or not need_scp:
                            scu2.update(_uid(c_) for c_ in classes)
                    for c, got in out2['look'].items():
                        ok = isinstance(got, tuple) and got[0] == 'service'
                        if c in acc2 and c in scu2:
                            if not ok:
                                v('second-association-lookup-fails-for-accepted-class',
                                  'class %s got %r' % (c, got))
                            elif (got[2].id, str(got[2].supported_ts)) not in acc2[c]:
                                v('second-association-lookup-bound-to-earlier-association',
                                  'class %s bound to %r, accepted now %r' % (
                                      c, tuple(got[2]), acc2[c]))
                        elif c not in acc2 and got != 'not-supported':
                            v('second-association-lookup-succeeds-for-refused-class',
                              'class %s was refused in this association (accepted in the '
                              'previous one), lookup gave %r' % (c, got))
        peer = world.peers[0] if world.peers else None
        proposable = len(configured) <= 128
        dead = [x for x in world.sim.tasks if x.role == 'dul' and x.exc is not None]
        if not proposable:
            # must fail before anything is put on the wire, with a library error
            wrote = peer is not None and (peer.received_raw or peer.buf)
            exc = out.get('exc')
            # ... and again when the application simply tries once more
            n_peers = len(world.peers)
            out3 = {}

            def user3():
                try:
                    with ae.request_association({'aet': 'REMOTE_AE', 'address': ADDR[0],
                                                 'port': ADDR[1]}):
                        out3['assoc'] = True
                except Exception as e:  # pylint: disable=broad-except
                    out3['exc'] = e
            world.spawn(user3, 'user3')
            world.run(tmax=400)
            world.drain(1.0)
            dead = [x for x in world.sim.tasks if x.role == 'dul' and x.exc is not None]
            if len(world.peers) > n_peers or out3.get('assoc') or \
                    not isinstance(out3.get('exc'), exceptions.AssociationError) or \
                    isinstance(out3.get('exc'), exceptions.AssociationAbortedError):
                v('unproposable-configuration-second-attempt-differs classes=%s' %
                  _bucket(len(configured)),
                  'first attempt: %r; second attempt: %r, connections opened %d' % (
                      exc, out3.get('exc'), len(world.peers) - n_peers))
            if wrote:
                v('unproposable-configuration-reached-the-wire classes=%s' % _bucket(len(configured)),
                  'peer received %d PDUs / %d stray bytes' % (len(peer.received_raw), len(peer.buf)))
            elif peer is not None:
                v('unproposable-configuration-opened-a-connection classes=%s' %
                  _bucket(len(configured)), 'exception %r' % exc)
            elif not isinstance(exc, exceptions.NetDICOMError):
                v('unproposable-configuration-not-a-library-error', 'exception %r; provider tb %s'
                  % (exc, dead[0].tb if dead else None))
            if dead:
                v('provider-died exc=%s' % type(dead[0].exc).__name__, dead[0].tb)
            return _fin(world, viol, case, configured)
        if dead:
            v('provider-died exc=%s' % type(dead[0].exc).__name__, dead[0].tb)
        if peer is None or peer.rq is None:
            v('no-request-on-the-wire', 'exception %r' % out.get('exc'))
            return _fin(world, viol, case, configured)
        rq = peer.rq
        for e in peer.errors:
            v('peer-saw-protocol-error', e)
        if rq['called'] != 'REMOTE_AE' or rq['calling'] != 'LOCAL_AE':
            v('ae-titles-wrong', 'called %r calling %r' % (rq['called'], rq['calling']))
        if rq['app_context'] != rc.APP_CONTEXT:
            v('application-context-wrong', repr(rq['app_context']))
        ml = [x[1] for x in rq['user_info'] if x[0] == 'max_length']
        if ml != [case['maxlen']]:
            v('maximum-length-not-configured-value', 'announced %r configured %r' % (
                ml, case['maxlen']))
        ids = [c[0] for c in rq['contexts']]
        abss = [c[1] for c in rq['contexts']]
        if len(set(ids)) != len(ids) or any(i % 2 == 0 or not 1 <= i <= 255 for i in ids):
            v('context-ids-not-distinct-odd-1-255', repr(ids[:20]))
        if sorted(abss) != sorted(configured):
            dup = sorted(set(a for a in abss if abss.count(a) > 1))
            miss = sorted(set(configured) - set(abss))
            v('classes-not-proposed-exactly-once dup=%s missing=%s' % (bool(dup), bool(miss)),
              'duplicates %r missing %r' % (dup[:5], miss[:5]))
        for c in rq['contexts']:
            if set(c[2]) != set(ts) or len(c[2]) != len(ts):
                v('transfer-syntaxes-not-configured-set', 'ctx %r configured %r' % (c, ts))
                break
        # lookup
        if 'look' in out:
            res = decided.get('results', [])
            ab_of = dict((c[0], c[1]) for c in rq['contexts'])
            acc = {}
            for pcid, r, t_ in res:
                if r == 0:
                    acc.setdefault(ab_of[pcid], []).append((pcid, t_))
            if 'usable' in out:
                # exactly the contexts the peer accepted, each bound to the syntax it chose
                # (classes are unique per request, so class <-> context is one to one)
                want_ids = dict((pcid, (ab_of[pcid], t_)) for pcid, r, t_ in res if r == 0)
                if out['usable_ids'] != want_ids:
                    v('usable-contexts-differ-from-accepted view=accepted_contexts',
                      'peer accepted %r; requester holds %r' % (
                          sorted(want_ids.items())[:6], sorted(out['usable_ids'].items())[:6]))
                want_cls = dict((ab, (pcid, t_)) for pcid, (ab, t_) in want_ids.items())
                if out['usable'] != want_cls:
                    miss = sorted(set(want_cls) - set(out['usable']))
                    extra = sorted(set(out['usable']) - set(want_cls))
                    v('usable-contexts-differ-from-accepted view=sop_classes_as_scu '
                      'missing=%s extra=%s' % (bool(miss), bool(extra)),
                      'accepted by the peer but not usable: %r; usable but not accepted: %r'
                      % (miss[:5], extra[:5]))
            for c, got in out['look'].items():
                want_ok = c in acc and c in as_scu
                if want_ok:
                    if not (isinstance(got, tuple) and got[0] == 'service'):
                        v('lookup-fails-for-accepted-class', 'class %s got %r' % (c, got))
                    else:
                        ctx = got[2]
                        if (ctx.id, str(ctx.supported_ts)) not in acc[c] or str(ctx.sop_class) != c:
                            v('lookup-bound-to-wrong-context-or-syntax',
                              'class %s service bound to %r; accepted %r' % (c, tuple(ctx), acc[c]))
                else:
                    if got != 'not-supported':
                        v('lookup-does-not-fail-with-class-not-supported accepted=%s scu=%s' % (
                            c in acc, c in as_scu), 'class %s got %r' % (c, got))
        elif 'exc' in out:
            v('request-failed exc=%s' % type(out['exc']).__name__, repr(out['exc']))
        return _fin(world, viol, case, configured)
    finally:
        world.close()


def _bucket(n):
    return '129-255' if n <= 255 else '>255'


def _short(case):
    c = dict(case)
    c['calls'] = [(k, (cl[0], len(cl)) if cl else ()) for k, cl in case['calls']]
    return c


def _fin(world, viol, case, configured):
    sim = world.sim
    seen, uniq = set(), []
    for x in viol:
        if x['sig'] not in seen:
            seen.add(x['sig'])
            uniq.append(x)
    import hashlib
    key = repr((_short(case)['calls'], case['ts'], case['maxlen'], case['pattern']))
    return {'violations': uniq, 'stats': dict(sim.stats), 'digest': sim.digest.hexdigest(),
            'sched_sig': hashlib.sha1(key.encode()).hexdigest(), 'steps': sim.steps,
            'vsecs': sim.now - 1000.0, 'nontrivial': len(configured) >= 2,
            'sample': {'case': _short(case), 'classes': len(configured)}}
