"""C17 -- every SCP response correlates with its request (message id, UIDs, context, type,
status) and every request is answered.  Real service providers on a real AE against a scripted
SCU; real qr_get_scu against a scripted C-GET SCP; sub-associations (C-MOVE destination,
N-EVENT-REPORT receiver) are scripted acceptors on the simulated listener table."""
import random

from .. import refcodec as rc, peers
from ..world import SimWorld

PROPERTY = 'C17'
LEVEL = 'exploration'
BUDGET = {'quick': 55, 'thorough': 900}
CHUNK = 8
EXHAUSTIVE = {'quick': False, 'thorough': False}
ADDR = ('srvhost', 11112)
DEST = ('desthost', 4006)
CT = '1.2.840.10008.5.1.4.1.1.2'
MR = '1.2.840.10008.5.1.4.1.1.4'
FIND = '1.2.840.10008.5.1.4.1.2.1.1'
MOVE = '1.2.840.10008.5.1.4.1.2.1.2'
GET = '1.2.840.10008.5.1.4.1.2.1.3'
COMMIT = '1.2.840.10008.1.20.1'
COMMIT_INST = '1.2.840.10008.1.20.1.1'
MIDS = [0, 1, 255, 256, 32767, 32768, 65535]
RULE = ('cases = provider {C-ECHO, C-STORE, C-FIND, C-MOVE, N-ACTION (+ its N-EVENT-REPORT on a '
        'second association: success-only / failure-only / mixed), N-EVENT-REPORT, C-STORE-RSP of '
        'the C-GET user} x message ids {0,1,255,256,32767,32768,65535 + seeded} x context ids x '
        'SOP instance UIDs x handler outcome {success, warning, failure, EventHandlingError where '
        'documented} x seeded schedule; oracle = reference command reader on the wire; '
        'non-trivial = every case; distinct = distinct (provider, ids, outcome)'
        '; concurrent family: 2-3 associations clashing on context ids / syntaxes under line-level pre-emption in the encoders; second request on another context of the same class; pipelined family: 4-40 requests without waiting; C-GET sub-operations without pending responses')
ASSUMPTIONS = ['data sets are built/read with pydicom (trusted for data sets; commands and PDUs '
               'are judged by R-codec)', 'EventHandlingError is only injected into providers that '
               'document a failure status for it (echo, store, n-action, n-event-report, c-get '
               'sub-operation)']


def enc_ds(ds, implicit=True, le=True):
    from pydicom import filebase, filewriter
    fp = filebase.DicomBytesIO()
    fp.is_implicit_VR = implicit
    fp.is_little_endian = le
    filewriter.write_dataset(fp, ds)
    return fp.parent.getvalue()


def cases(tier, seed):
    rnd = random.Random('c17/%d' % seed)
    kinds = ['echo', 'store', 'find', 'move', 'n_action', 'n_event_report', 'get_store_rsp']
    n = 5000 if tier == 'quick' else 150000
    i = 0
    for kind in kinds:
        for mid in MIDS:
            for outcome in ('success', 'failure', 'raise'):
                i += 1
                yield dict(kind=kind, mid=mid, outcome=outcome, pcid=rnd.choice([1, 3, 5, 7, 9]),
                           variant=rnd.choice(['success', 'failure', 'mixed']),
                           seed=seed * 1009 + i)
    for j in range(150 if tier == 'quick' else 6000):
        yield dict(kind='concurrent', mid=rnd.randrange(65536), outcome='success',
                   pcid=rnd.choice([1, 3, 5]), variant='mixed', npeers=rnd.choice([2, 2, 3]),
                   seed=seed * 100019 + j)
    # a user that does not wait for a response before it sends its next request (several
    # operations outstanding): every one of them is answered, in order, each response with the
    # ids of ITS request
    for j in range(150 if tier == 'quick' else 6000):
        yield dict(kind='pipelined', mid=rnd.randrange(65536), outcome='success',
                   pcid=rnd.choice([1, 3, 5]), variant='mixed', n=rnd.choice([4, 8, 16, 40]),
                   # forward: the handlers of the entity consult another entity before they
                   # answer (an association requested through the SAME entity object, as a
                   # forwarding / proxy application does)
                   forward=j % 4 == 1, seed=seed * 100057 + j)
    for j in range(n):
        yield dict(kind=rnd.choice(kinds), mid=rnd.randrange(65536),
                   outcome=rnd.choice(['success', 'warning', 'failure', 'raise']),
                   pcid=rnd.choice([1, 3, 5, 7, 9, 11, 201]),
                   variant=rnd.choice(['success', 'failure', 'mixed']),
                   dest_mute=rnd.random() < 0.25, rel_behind=rnd.random() < 0.2,
                   late_raise=rnd.random() < 0.3,
                   no_pending=rnd.random() < 0.5, seed=seed * 100003 + j)


STATUS = {'success': 0x0000, 'warning': 0xB000, 'failure': 0xA700}


def run_case(case):
    if case['kind'] == 'get_store_rsp':
        return _get_case(case)
    if case['kind'] == 'concurrent':
        return _concurrent_case(case)
    if case['kind'] == 'pipelined':
        return _pipelined_case(case)
    return _scp_case(case)


def _pipelined_case(case):
    from pynetdicom2 import applicationentity, sopclass
    import pydicom
    rnd = random.Random('c17p/%s' % case['seed'])
    world = SimWorld('c17/%s/p' % case['seed'], with_fs=True)
    viol = []

    def v(rule, detail):
        viol.append({'sig': 'C17 %s provider=pipelined' % rule,
                     'detail': '%s\ncase %r\nhandler errors %r' % (detail, case,
                                                                   world.handler_errors[:1])})
    try:
        BACKEND = ('backendhost', 104)
        fwd = {'n': 0}

        def consult(ae_):
            with ae_.request_association({'aet': 'BACKEND', 'address': BACKEND[0],
                                          'port': BACKEND[1]}) as a_:
                st_ = int(a_.get_scu(rc.VERIFICATION)(4242))
            fwd['n'] += 1
            world.sim.bump('probe.handler_used_its_own_entity_as_requestor')
            return st_

        class Srv(applicationentity.AE):
            def on_receive_echo(self, context):
                if rnd.random() < 0.3:
                    world.sim.sleep(rnd.choice([0.01, 0.06]))
                if case.get('forward'):
                    return consult(self)
                return 0

            def on_receive_store(self, context, ds):
                if rnd.random() < 0.3:
                    world.sim.sleep(rnd.choice([0.01, 0.06]))
                if case.get('forward') and rnd.random() < 0.5:
                    return consult(self)
                return 0

            def on_receive_find(self, context, ds):
                k = int(str(ds.PatientID))

                def gen():
                    for j in range(k):
                        world.sim.sleep(rnd.choice([0.0, 0.05, 0.3]))
                        d = pydicom.Dataset()
                        d.PatientName = 'M%d' % j
                        yield d, 0xFF00
                return gen()
        srv = world.make_ae(Srv, 'SRV', 11112, [rc.IMPLICIT_LE], 16384)
        srv.timeout = 60

        def store2(asce, ctx, msg):
            return sopclass.storage_scp(asce, ctx, msg)
        store2.sop_classes = [CT, MR]
        store2.store_in_file = True
        srv.add_scp(sopclass.verification_scp).add_scp(store2).add_scp(sopclass.qr_find_scp)
        if case.get('forward'):
            srv.add_scu(sopclass.verification_scu)

            def backend_msg(peer_, m_):
                peer_.send_message(m_['pcid'], {0x0002: rc.VERIFICATION, 0x0100: 0x8030,
                                                0x0120: m_['fields'].get(0x0110),
                                                0x0800: 0x0101, 0x0900: 0})
            world.serve_peer(BACKEND, lambda sock: peers.ScriptedAcceptor(
                world.sim, sock, on_message=backend_msg))
        world.serve_ae(srv, ADDR)
        rqs = []
        for k in range(case['n']):
            mid = (case['mid'] + rnd.choice([0, 1, 1, 2, 7])) & 0xffff if k else case['mid']
            r_ = rnd.random()
            if r_ < 0.2:
                # (a query whose matches take a while: the next requests arrive meanwhile)
                rqs.append(dict(kind='find', mid=mid, pcid=5, sop=FIND, nmatch=rnd.randint(0, 3)))
            elif r_ < 0.6:
                rqs.append(dict(kind='echo', mid=mid, pcid=rnd.choice([1, 201]),
                                sop=rc.VERIFICATION))
            else:
                pc = rnd.choice([3, 11])
                rqs.append(dict(kind='store', mid=mid, pcid=pc, sop=CT if pc == 3 else MR,
                                inst='1.2.826.0.1.%d.%d' % (k, rnd.randrange(10 ** 4)),
                                size=rnd.choice([1, 40, 300, 3000])))
        out = {'rsps': []}

        def script(peer):
            p = peer.associate()
            if not isinstance(p, dict) or p['kind'] != 'A-ASSOCIATE-AC':
                out['noassoc'] = p
                return
            burst = rnd.choice([1, 2, 4, case['n']])
            for k, r in enumerate(rqs):
                if r['kind'] == 'echo':
                    peer.send_message(r['pcid'], {0x0002: r['sop'], 0x0100: 0x0030,
                                                  0x0110: r['mid'], 0x0800: 0x0101})
                elif r['kind'] == 'find':
                    q = pydicom.Dataset()
                    q.PatientName = 'Q*'
                    q.PatientID = str(r['nmatch'])
                    peer.send_message(r['pcid'], {0x0002: r['sop'], 0x0100: 0x0020,
                                                  0x0110: r['mid'], 0x0700: 0, 0x0800: 1},
                                      enc_ds(q))
                else:
                    d = pydicom.Dataset()
                    d.SOPClassUID = r['sop']
                    d.SOPInstanceUID = r['inst']
                    d.PatientName = 'S' * r['size']
                    peer.send_message(r['pcid'], {0x0002: r['sop'], 0x0100: 0x0001,
                                                  0x0110: r['mid'], 0x0700: 0, 0x0800: 1,
                                                  0x1000: r['inst']}, enc_ds(d),
                                      max_length=rnd.choice([None, 256]))
                if (k + 1) % burst == 0:
                    world.sim.sleep(rnd.choice([0.0, 0.01, 0.05]))
            for _ in expect:
                m = peer.read_message(timeout=100.0)
                if not isinstance(m, dict) or 'fields' not in m:
                    out['instead'] = m
                    break
                out['rsps'].append(m)
            if not peer.eof and not peer.reset:
                peer.release()
        # one response per request, a query has one per match and a final one
        expect = []
        for r in rqs:
            if r['kind'] == 'find':
                expect += [dict(r, status=0xFF00)] * r['nmatch'] + [dict(r, status=0)]
            else:
                expect.append(dict(r, status=0))
        ctxs = ((1, rc.VERIFICATION, (rc.IMPLICIT_LE,)), (3, CT, (rc.IMPLICIT_LE,)),
                (5, FIND, (rc.IMPLICIT_LE,)),
                (11, MR, (rc.IMPLICIT_LE,)), (201, rc.VERIFICATION, (rc.IMPLICIT_LE,)))
        peer = peers.ScriptedRequestor(world.sim, world.net, ADDR, ctxs, script=script)
        world.spawn(peer.run, 'scu', role='user')
        world.run(tmax=900)
        world.drain(3.0)
        if 'noassoc' in out:
            return {'harness_error': 'association not accepted: %r' % (out['noassoc'],),
                    'violations': []}
        for e in peer.errors:
            v('peer-saw-protocol-error', e)
        rsps = out['rsps']
        if len(rsps) != len(expect):
            v('request-not-answered outcome=success',
              '%d requests sent without waiting, %d responses expected, %d received; instead: %r'
              % (len(rqs), len(expect), len(rsps), out.get('instead')))
        for k, (r, m) in enumerate(zip(expect, rsps)):
            f = m['fields']
            want_cf = {'echo': 0x8030, 'store': 0x8001, 'find': 0x8020}[r['kind']]
            if f.get(0x0100) != want_cf:
                v('response-type-wrong', 'request %d (%s): response %r' % (k, r['kind'],
                                                                         f.get(0x0100)))
                break
            if m['pcid'] != r['pcid']:
                v('response-on-other-context', 'request %d on %d, response on %d' % (
                    k, r['pcid'], m['pcid']))
            if f.get(0x0120) != r['mid']:
                v('message-id-being-responded-to-wrong', 'request %d id %d, response %r' % (
                    k, r['mid'], f.get(0x0120)))
            if f.get(0x0002) != r['sop']:
                v('sop-class-not-repeated', 'request %s response %r' % (r['sop'], f.get(0x0002)))
            if r['kind'] == 'store' and f.get(0x1000) != r['inst']:
                v('sop-instance-not-repeated', 'request %s response %r' % (r['inst'],
                                                                           f.get(0x1000)))
            if f.get(0x0900) != r['status']:
                v('status-not-handler-status outcome=success', 'response %d: %r, expected %04x'
                  % (k, f.get(0x0900), r['status']))
        return _fin(world, viol, case)
    finally:
        world.close()


SFIND = '1.2.840.10008.5.1.4.1.2.2.1'


def _concurrent_case(case):
    """Several associations served at the same time by one AE: each one's responses must
    correlate with ITS request (responses of the same class are alive together)."""
    from pynetdicom2 import applicationentity, sopclass
    import pydicom
    rnd = random.Random('c17c/%s' % case['seed'])
    world = SimWorld('c17/%s/c' % case['seed'], with_fs=True)
    viol = []

    def v(rule, detail):
        viol.append({'sig': 'C17 %s provider=concurrent' % rule,
                     'detail': '%s\ncase %r\nhandler errors %r' % (detail, case,
                                                                   world.handler_errors[:1])})
    try:
        class Srv(applicationentity.AE):
            def on_receive_find(self, context, ds):
                k = int(str(ds.PatientID))

                def gen():
                    for j in range(k):
                        world.sim.sleep(rnd.choice([0.01, 0.2, 0.5]))
                        d = pydicom.Dataset()
                        d.PatientName = '%s/%d' % (ds.PatientName, j)
                        yield d, 0xFF00
                return gen()

            def on_receive_store(self, context, ds):
                world.sim.sleep(rnd.choice([0.0, 0.3]))
                return 0
            def on_commitment_response(self, transaction_uid, success, failure):
                world.sim.sleep(rnd.choice([0.0, 0.2]))

            def on_commitment_request(self, remote_ae, uids):
                # slow enough for the requests of several associations to overlap
                world.sim.sleep(rnd.choice([0.05, 0.3, 0.6]))
                return {'aet': 'DEST', 'address': DEST[0], 'port': DEST[1]}, list(uids), []

        def dest_on_message(peer, m):
            f = m['fields']
            if f.get(0x0100) == 0x0100:
                peer.send_message(m['pcid'], {0x0002: f.get(0x0002), 0x0100: 0x8100,
                                              0x0120: f.get(0x0110, 0), 0x0800: 0x0101, 0x0900: 0,
                                              0x1000: f.get(0x1000), 0x1002: f.get(0x1002)})
        world.serve_peer(DEST, lambda sock: peers.ScriptedAcceptor(world.sim, sock,
                                                                   on_message=dest_on_message))
        # the peers differ in transfer syntax and in what a context id stands for: the same id
        # names different SOP classes / syntaxes in associations that are alive together
        TSS = [(rc.IMPLICIT_LE, True, True), (rc.EXPLICIT_LE, False, True),
               (rc.EXPLICIT_BE, False, False)]
        srv = world.make_ae(Srv, 'SRV', 11112, [t[0] for t in TSS], 16384)
        srv.timeout = 120

        def store2(asce, ctx, msg):
            return sopclass.storage_scp(asce, ctx, msg)
        store2.sop_classes = [CT, MR]
        store2.store_in_file = True
        srv.add_scp(sopclass.verification_scp).add_scp(store2).add_scp(sopclass.qr_find_scp)
        srv.add_scp(sopclass.StorageCommitment())
        world.serve_ae(srv, ADDR)
        plans = []
        for i in range(case['npeers']):
            plans.append(dict(kind=rnd.choice(['find', 'find', 'store', 'echo', 'n_event_report',
                                               'n_action', 'n_action']),
                              mid=rnd.choice(MIDS + [rnd.randrange(65536)]),
                              sop=rnd.choice([FIND, SFIND]), k=rnd.randint(1, 3),
                              pcid=rnd.choice([1, 3]), inst='1.2.3.%d.%d' % (i, rnd.randrange(9999)),
                              store_sop=rnd.choice([CT, MR]), got=[], ts=rnd.choice(TSS),
                              delay=rnd.choice([0.0, 0.05, 0.3, 0.3])))
        for i, pl in enumerate(plans):
            def script(peer, pl=pl, i=i):
                p = peer.associate()
                if not isinstance(p, dict) or p['kind'] != 'A-ASSOCIATE-AC':
                    pl['noassoc'] = True
                    return
                world.sim.sleep(pl['delay'])
                _ts, imp, le = pl['ts']

                def _enc(ds_):          # this peer's negotiated transfer syntax
                    return enc_ds(ds_, imp, le)
                if pl['kind'] == 'find':
                    q = pydicom.Dataset()
                    q.PatientName = 'P%d' % i
                    q.PatientID = str(pl['k'])
                    peer.send_message(pl['pcid'], {0x0002: pl['sop'], 0x0100: 0x0020,
                                                   0x0110: pl['mid'], 0x0700: 0, 0x0800: 1},
                                      _enc(q))
                    want = pl['k'] + 1
                elif pl['kind'] == 'store':
                    d = pydicom.Dataset()
                    d.SOPClassUID = pl['store_sop']
                    d.SOPInstanceUID = pl['inst']
                    d.PatientName = 'S%d' % i
                    peer.send_message(pl['pcid'], {0x0002: pl['store_sop'], 0x0100: 0x0001,
                                                   0x0110: pl['mid'], 0x0700: 0, 0x0800: 1,
                                                   0x1000: pl['inst']}, _enc(d))
                    want = 1
                elif pl['kind'] == 'n_action':
                    d = pydicom.Dataset()
                    d.TransactionUID = '1.2.3.777.%d' % i
                    it = pydicom.Dataset()
                    it.ReferencedSOPClassUID = CT
                    it.ReferencedSOPInstanceUID = '1.2.3.8.%d' % i
                    d.ReferencedSOPSequence = pydicom.Sequence([it])
                    peer.send_message(pl['pcid'], {0x0003: COMMIT, 0x0100: 0x0130,
                                                   0x0110: pl['mid'], 0x0800: 1,
                                                   0x1001: COMMIT_INST, 0x1008: 1}, _enc(d))
                    want = 1
                elif pl['kind'] == 'n_event_report':
                    d = pydicom.Dataset()
                    d.TransactionUID = '1.2.3.778.%d' % i
                    it = pydicom.Dataset()
                    it.ReferencedSOPClassUID = CT
                    it.ReferencedSOPInstanceUID = '1.2.3.9.%d' % i
                    d.ReferencedSOPSequence = pydicom.Sequence([it])
                    peer.send_message(pl['pcid'], {0x0002: COMMIT, 0x0100: 0x0100,
                                                   0x0110: pl['mid'], 0x0800: 1,
                                                   0x1000: COMMIT_INST, 0x1002: 1}, _enc(d))
                    want = 1
                else:
                    peer.send_message(pl['pcid'], {0x0002: rc.VERIFICATION, 0x0100: 0x0030,
                                                   0x0110: pl['mid'], 0x0800: 0x0101})
                    want = 1
                for _ in range(want):
                    m = peer.read_message(timeout=100.0)
                    if not isinstance(m, dict) or 'fields' not in m:
                        break
                    pl['got'].append(m)
                pl['want'] = want
                if not peer.eof and not peer.reset:
                    peer.release()
            sop_for = {'find': pl['sop'], 'store': pl['store_sop'], 'echo': rc.VERIFICATION,
                       'n_event_report': COMMIT, 'n_action': COMMIT}[pl['kind']]
            ctxs = ((pl['pcid'], sop_for, (pl['ts'][0],)),)
            peer = peers.ScriptedRequestor(world.sim, world.net, ADDR, ctxs, script=script)
            world.spawn(peer.run, 'scu%d' % i, role='user')
        # the providers of the associations build and encode their responses at the same time:
        # line-level pre-emption (with parking) inside the functions every response goes through
        from .. import preempt
        pre = preempt.Preempter(world.sim, prob=0.4, park_prob=0.2, park_max=0.1,
                                funcs={'send', 'encode', 'encode_element', 'set_length',
                                       'decode', '_fragments'},
                                files=('dsutils.py',))
        pre.install()
        try:
            world.run(tmax=900)
            world.drain(3.0)
        finally:
            pre.uninstall()
        for i, pl in enumerate(plans):
            if pl.get('noassoc'):
                continue
            if len(pl['got']) != pl.get('want'):
                v('request-not-answered', 'peer %d (%s): %d of %r responses' % (
                    i, pl['kind'], len(pl['got']), pl.get('want')))
            sop_for = {'find': pl['sop'], 'store': pl['store_sop'], 'echo': rc.VERIFICATION,
                       'n_event_report': COMMIT, 'n_action': COMMIT}[pl['kind']]
            for j, m in enumerate(pl['got']):
                f = m['fields']
                if pl['kind'] == 'find' and j < pl['k']:
                    # the identifier of a match is encoded in THIS association's syntax
                    from pydicom import filebase, filereader
                    name = None
                    try:
                        fp = filebase.DicomBytesIO(m['data'] or b'')
                        fp.is_implicit_VR, fp.is_little_endian = pl['ts'][1], pl['ts'][2]
                        name = str(filereader.read_dataset(fp, pl['ts'][1], pl['ts'][2]).PatientName)
                    except Exception as e:  # pylint: disable=broad-except
                        name = 'undecodable: %r' % (e,)
                    if name != 'P%d/%d' % (i, j):
                        v('match-identifier-not-in-negotiated-syntax-or-foreign',
                          'peer %d (%s) match %d: %r, expected %r' % (i, pl['ts'][0], j, name,
                                                                     'P%d/%d' % (i, j)))
                if f.get(0x0120) != pl['mid']:
                    v('message-id-being-responded-to-wrong',
                      'peer %d (%s) asked with id %d, got a response for %r; other peers %r' % (
                          i, pl['kind'], pl['mid'], f.get(0x0120),
                          [(p['kind'], p['mid']) for p in plans]))
                if f.get(0x0002) != sop_for:
                    v('sop-class-not-repeated', 'peer %d (%s) class %s, response %r' % (
                        i, pl['kind'], sop_for, f.get(0x0002)))
                if pl['kind'] == 'store' and f.get(0x1000) != pl['inst']:
                    v('sop-instance-not-repeated', 'peer %d sent %s got %r' % (i, pl['inst'],
                                                                              f.get(0x1000)))
                if m['pcid'] != pl['pcid']:
                    v('response-on-other-context', 'peer %d' % i)
        return _fin(world, viol, case)
    finally:
        world.close()


def _scp_case(case):
    from pynetdicom2 import applicationentity, sopclass, exceptions
    import pydicom
    rnd = random.Random('c17r/%s' % case['seed'])
    kind, mid, outcome = case['kind'], case['mid'], case['outcome']
    world = SimWorld('c17/%s' % case['seed'], with_fs=True)
    viol = []

    def v(rule, detail):
        viol.append({'sig': 'C17 %s provider=%s' % (rule, kind),
                     'detail': '%s\ncase %r\nhandler errors %r' % (detail, case,
                                                                   world.handler_errors[:1])})
    try:
        raises_ok = kind in ('echo', 'store', 'n_action', 'n_event_report')
        if outcome == 'raise' and not raises_ok:
            outcome = 'failure'
        status = STATUS.get(outcome, 0)
        inst = '1.2.826.0.1.%d.%d' % (rnd.randrange(10 ** 6), rnd.randrange(10 ** 4))
        nmatch = rnd.randint(0, 3)
        nmove = rnd.randint(0, 3)
        handler_calls = []

        class Srv(applicationentity.AE):
            def on_receive_echo(self, context):
                handler_calls.append('echo')
                if outcome == 'raise':
                    raise exceptions.EventHandlingError('no')
                return status

            def on_receive_store(self, context, ds):
                handler_calls.append('store')
                if outcome == 'raise':
                    raise exceptions.EventHandlingError('no')
                return status

            def on_receive_find(self, context, ds):
                handler_calls.append('find')
                out = []
                for k in range(nmatch):
                    d = pydicom.Dataset()
                    d.PatientName = 'M%d' % k
                    out.append((d, 0xFF00 if k % 2 == 0 else 0xFF01))
                return iter(out)

            def on_receive_move(self, context, ds, destination):
                handler_calls.append('move')
                def gen():
                    for k in range(nmove):
                        d = pydicom.Dataset()
                        d.SOPClassUID = CT
                        d.SOPInstanceUID = '1.2.3.4.%d' % k
                        d.PatientName = 'X'
                        yield d
                return {'aet': 'DEST', 'address': DEST[0], 'port': DEST[1]}, nmove, gen()

            def on_commitment_request(self, remote_ae, uids):
                handler_calls.append('commit-rq')
                uids = list(uids)
                if outcome == 'raise':
                    raise exceptions.EventHandlingError('no')
                var = case['variant']
                ok = uids if var == 'success' else (uids[:1] if var == 'mixed' else [])
                bad = [] if var == 'success' else [(c, i, 0x0112) for c, i in
                                                    (uids[1:] if var == 'mixed' else uids)]
                if case.get('late_raise'):
                    # the handler answers with lazily evaluated iterables ("iterable or None");
                    # looking the instances up fails only when the provider goes through them
                    # to build its report - after the request has been confirmed
                    def lazy(items):
                        for it_ in items:
                            yield it_
                        raise exceptions.EventHandlingError('archive look-up failed')
                    ok = lazy(ok)
                return {'aet': 'DEST', 'address': DEST[0], 'port': DEST[1]}, ok, bad

            def on_commitment_response(self, transaction_uid, success, failure):
                handler_calls.append('commit-rsp')
                if outcome == 'raise':
                    raise exceptions.EventHandlingError('no')
        srv = world.make_ae(Srv, 'SRV', 11112, [rc.IMPLICIT_LE], 16384)
        srv.timeout = 60

        def store2(asce, ctx, msg):
            # the library's storage provider, registered for two storage classes only (with all
            # 139 of storage_scp the AE could not request the sub-associations below)
            return sopclass.storage_scp(asce, ctx, msg)
        store2.sop_classes = [CT, MR]
        store2.store_in_file = True
        srv.add_scp(sopclass.verification_scp).add_scp(store2)
        srv.add_scp(sopclass.qr_find_scp).add_scp(sopclass.qr_move_scp)
        srv.add_scp(sopclass.StorageCommitment())
        srv.add_scu(sopclass.storage_scu, [CT])
        world.serve_ae(srv, ADDR)
        dest_peers = []

        def dest_on_message(peer, m):
            f = m['fields']
            if f.get(0x0100) == 0x0001:
                peer.send_message(m['pcid'], {0x0002: f.get(0x0002), 0x0100: 0x8001,
                                              0x0120: f.get(0x0110), 0x0800: 0x0101, 0x0900: 0,
                                              0x1000: f.get(0x1000)})
            elif f.get(0x0100) == 0x0100:
                peer.send_message(m['pcid'], {0x0002: f.get(0x0002), 0x0100: 0x8100,
                                              0x0120: f.get(0x0110, 0), 0x0800: 0x0101, 0x0900: 0,
                                              0x1000: f.get(0x1000), 0x1002: f.get(0x1002)})

        class MuteDest(peers.ScriptedAcceptor):
            # answers every request but never the A-RELEASE-RQ of the sub-association
            def serve(self):
                while True:
                    p_ = self.read_pdu()
                    if p_ is None or p_ == 'timeout':
                        self.close()
                        return
                    if p_['kind'] == 'P-DATA-TF':
                        for m_ in self.feed_pdata(p_):
                            dest_on_message(self, m_)
                    elif p_['kind'] == 'A-ABORT':
                        self.close()
                        return

        def dest_factory(sock):
            cls_ = MuteDest if case.get('dest_mute') else peers.ScriptedAcceptor
            p = cls_(world.sim, sock, on_message=dest_on_message)
            dest_peers.append(p)
            return p
        if case.get('dest_mute'):
            srv.timeout = 6
        world.serve_peer(DEST, dest_factory)
        sop = {'echo': rc.VERIFICATION, 'store': rnd.choice(['1.2.840.10008.5.1.4.1.1.2',
                                                              '1.2.840.10008.5.1.4.1.1.4']),
               'find': FIND, 'move': MOVE, 'n_action': COMMIT, 'n_event_report': COMMIT}[kind]
        pcid = case['pcid']
        out = {'rsps': []}

        def script(peer):
            p = peer.associate()
            if not isinstance(p, dict) or p['kind'] != 'A-ASSOCIATE-AC':
                out['noassoc'] = p
                return
            q = pydicom.Dataset()
            q.PatientName = 'Q*'
            if kind == 'echo':
                peer.send_message(pcid, {0x0002: sop, 0x0100: 0x0030, 0x0110: mid, 0x0800: 0x0101})
                want = 1
            elif kind == 'store':
                d = pydicom.Dataset()
                d.SOPClassUID = sop
                d.SOPInstanceUID = inst
                d.PatientName = 'S' * rnd.randint(1, 300)
                peer.send_message(pcid, {0x0002: sop, 0x0100: 0x0001, 0x0110: mid, 0x0700: 0,
                                         0x0800: 1, 0x1000: inst}, enc_ds(d))
                want = 1
            elif kind == 'find':
                peer.send_message(pcid, {0x0002: sop, 0x0100: 0x0020, 0x0110: mid, 0x0700: 0,
                                         0x0800: 1}, enc_ds(q))
                want = nmatch + 1
            elif kind == 'move':
                peer.send_message(pcid, {0x0002: sop, 0x0100: 0x0021, 0x0110: mid, 0x0700: 0,
                                         0x0800: 1, 0x0600: 'DEST'}, enc_ds(q))
                want = nmove + 1
            elif kind == 'n_action':
                d = pydicom.Dataset()
                d.TransactionUID = '1.2.3.777'
                seq = []
                for k in range(2):
                    it = pydicom.Dataset()
                    it.ReferencedSOPClassUID = CT
                    it.ReferencedSOPInstanceUID = '1.2.3.9.%d' % k
                    seq.append(it)
                d.ReferencedSOPSequence = pydicom.Sequence(seq)
                peer.send_message(pcid, {0x0003: sop, 0x0100: 0x0130, 0x0110: mid, 0x0800: 1,
                                         0x1001: COMMIT_INST, 0x1008: 1}, enc_ds(d))
                want = 1
            else:
                d = pydicom.Dataset()
                d.TransactionUID = '1.2.3.778'
                it = pydicom.Dataset()
                it.ReferencedSOPClassUID = CT
                it.ReferencedSOPInstanceUID = '1.2.3.9.0'
                d.ReferencedSOPSequence = pydicom.Sequence([it])
                peer.send_message(pcid, {0x0002: sop, 0x0100: 0x0100, 0x0110: mid, 0x0800: 1,
                                         0x1000: COMMIT_INST, 0x1002: 1}, enc_ds(d))
                want = 1
            out['want'] = want
            rel_behind = bool(case.get('rel_behind')) and outcome != 'raise'
            if rel_behind:
                # the requester asks for release right behind its request, without waiting:
                # the provider may (and must) still answer - P-DATA is legal while the release
                # is pending on its side
                peer.send(rc.enc_release_rq())
            for _ in range(want):
                m = peer.read_message(timeout=100.0)
                if not isinstance(m, dict) or 'fields' not in m:
                    out['instead'] = m
                    break
                out['rsps'].append(m)
            if rel_behind:
                peer.read_pdu(timeout=30.0)          # the A-RELEASE-RP (or whatever ends it)
                return
            if kind == 'n_action' and case.get('late_raise') and 'instead' not in out:
                # one request, one response: whatever goes wrong afterwards, nothing more is
                # sent in answer to it
                extra = peer.read_message(timeout=30.0)
                if isinstance(extra, dict) and 'fields' in extra:
                    out['surplus'] = extra
            if kind in ('echo', 'find') and 'instead' not in out and outcome != 'raise':
                # the same SOP class is negotiated on a second context (other id): a further
                # request there must be answered THERE
                alt = 201 if pcid != 201 else {'echo': 1, 'find': 5}[kind]
                mid2 = (mid + 1) & 0xFFFF
                if kind == 'echo':
                    peer.send_message(alt, {0x0002: sop, 0x0100: 0x0030, 0x0110: mid2,
                                            0x0800: 0x0101})
                    w2 = 1
                else:
                    peer.send_message(alt, {0x0002: sop, 0x0100: 0x0020, 0x0110: mid2, 0x0700: 0,
                                            0x0800: 1}, enc_ds(q))
                    w2 = nmatch + 1
                out['second'] = (alt, mid2, [])
                for _ in range(w2):
                    m = peer.read_message(timeout=100.0)
                    if not isinstance(m, dict) or 'fields' not in m:
                        break
                    out['second'][2].append(m)
                out['second_want'] = w2
            if not peer.eof and not peer.reset:
                world.sim.sleep(1.0)
                peer.release()
        ctxs = tuple((i, s, (rc.IMPLICIT_LE,)) for i, s in
                     ((1, rc.VERIFICATION), (3, CT), (5, FIND), (7, MOVE), (9, COMMIT), (11, MR),
                      (201, sop)))
        # the request goes out on a context negotiated for ITS sop class
        ctxs = tuple((i, (sop if i == pcid else s), t) for i, s, t in ctxs)
        peer = peers.ScriptedRequestor(world.sim, world.net, ADDR, ctxs, script=script)
        world.spawn(peer.run, 'scu', role='user')
        world.run(tmax=600)
        world.drain(3.0)
        if 'noassoc' in out:
            return {'harness_error': 'association not accepted: %r' % (out['noassoc'],),
                    'violations': []}
        rsps = out['rsps']
        for e in peer.errors:
            v('peer-saw-protocol-error', e)
        if 'surplus' in out:
            v('second-response-to-one-request provider=%s' % kind,
              'after the %d expected: %r' % (out.get('want'), out['surplus']['fields']))
        if len(rsps) != out.get('want'):
            v('request-not-answered outcome=%s' % outcome,
              'expected %r responses, got %d; instead: %r; handler calls %r' % (
                  out.get('want'), len(rsps), out.get('instead'), handler_calls))
        rq_cf = {'echo': 0x0030, 'store': 0x0001, 'find': 0x0020, 'move': 0x0021,
                 'n_action': 0x0130, 'n_event_report': 0x0100}[kind]
        for j, m in enumerate(rsps):
            f = m['fields']
            last = j == len(rsps) - 1
            for p_ in m['problems']:
                if not p_.startswith('group length'):
                    v('response-command-malformed', p_)
            if m['pcid'] != pcid:
                v('response-on-other-context', 'request on %d, response on %d' % (pcid, m['pcid']))
            if f.get(0x0100) != (rq_cf | 0x8000):
                v('response-type-wrong', 'request %04x response %r' % (rq_cf, f.get(0x0100)))
            if f.get(0x0120) != mid:
                v('message-id-being-responded-to-wrong', 'request id %d, response carries %r' % (
                    mid, f.get(0x0120)))
            if f.get(0x0002) != sop:
                v('sop-class-not-repeated', 'request %s response %r' % (sop, f.get(0x0002)))
            if kind == 'store' and f.get(0x1000) != inst:
                v('sop-instance-not-repeated', 'request %s response %r' % (inst, f.get(0x1000)))
            if kind in ('n_action', 'n_event_report') and f.get(0x1000) != COMMIT_INST:
                v('sop-instance-not-repeated', 'request %s response %r' % (COMMIT_INST,
                                                                           f.get(0x1000)))
            st = f.get(0x0900)
            if kind in ('echo', 'store'):
                want_st = status if outcome != 'raise' else (0x0110 if kind == 'echo' else 0xC000)
                if st != want_st:
                    v('status-not-handler-status outcome=%s' % outcome,
                      'handler %04x response %r' % (want_st, st))
            elif kind in ('n_action', 'n_event_report'):
                want_st = 0x0110 if outcome == 'raise' else 0
                if st != want_st:
                    v('status-not-handler-status outcome=%s' % outcome,
                      'expected %04x response %r' % (want_st, st))
            elif kind == 'find':
                want_st = 0 if last else (0xFF00 if j % 2 == 0 else 0xFF01)
                if st != want_st:
                    v('status-not-handler-status', 'match %d expected %04x got %r' % (j, want_st, st))
        if 'second' in out:
            alt, mid2, got2 = out['second']
            if len(got2) != out.get('second_want'):
                v('second-request-on-other-context-not-answered',
                  'expected %r responses on context %d, got %d' % (out.get('second_want'), alt,
                                                                   len(got2)))
            for m in got2:
                if m['pcid'] != alt:
                    v('response-on-other-context',
                      'second request on context %d (same SOP class as context %d), response on %d'
                      % (alt, pcid, m['pcid']))
                if m['fields'].get(0x0120) != mid2:
                    v('message-id-being-responded-to-wrong', 'second request id %d, response %r' % (
                        mid2, m['fields'].get(0x0120)))
        if kind == 'n_action' and outcome != 'raise' and len(rsps) == 1 and \
                not case.get('late_raise'):     # (a look-up that failed produces no report)
            reports = [m for p in dest_peers for m in p.messages
                       if m['fields'].get(0x0100) == 0x0100]
            if len(reports) != 1:
                v('n-event-report-not-sent variant=%s' % case['variant'],
                  '%d reports at the destination; associations %d' % (len(reports),
                                                                       len(dest_peers)))
            else:
                r = reports[0]
                f = r['fields']
                owner = [p for p in dest_peers if r in p.messages][0]
                acc = dict((c[0], c) for c in owner.rq['contexts'])
                if r['pcid'] not in acc or acc[r['pcid']][1] != COMMIT:
                    v('n-event-report-on-context-not-negotiated-for-it',
                      'sent on %d; proposed %r' % (r['pcid'], [(c[0], c[1]) for c in
                                                                 owner.rq['contexts']][:6]))
                if not isinstance(f.get(0x0110), int):
                    v('n-event-report-without-message-id', repr(f))
                want_evt = 1 if case['variant'] == 'success' else 2
                if f.get(0x1002) != want_evt:
                    v('n-event-report-event-type-wrong variant=%s' % case['variant'],
                      'event type %r' % f.get(0x1002))
                for p_ in r['problems']:
                    if not p_.startswith('group length'):
                        v('n-event-report-command-malformed', p_)
        return _fin(world, viol, case)
    finally:
        world.close()


def _get_case(case):
    """C-STORE responses sent by the C-GET user (real qr_get_scu) to a scripted C-GET SCP."""
    from pynetdicom2 import applicationentity, sopclass, exceptions
    import pydicom
    rnd = random.Random('c17g/%s' % case['seed'])
    mid, outcome = case['mid'], case['outcome']
    world = SimWorld('c17/%s/g' % case['seed'], with_fs=True)
    viol = []

    def v(rule, detail):
        viol.append({'sig': 'C17 %s provider=get_store_rsp' % rule,
                     'detail': '%s\ncase %r' % (detail, case)})
    try:
        status = STATUS.get(outcome, 0)
        nsub = rnd.randint(1, 3)
        sub = []
        for k in range(nsub):
            sub.append(dict(mid=rnd.choice(MIDS + [mid]), inst='1.2.3.55.%d' % rnd.randrange(10 ** 5),
                            sop=rnd.choice([CT, MR])))
        got = {'rsps': []}

        def on_message(peer, m):
            f = m['fields']
            if f.get(0x0100) == 0x0010:
                got['get_rq'] = m
                for s in sub:
                    d = pydicom.Dataset()
                    d.SOPClassUID = s['sop']
                    d.SOPInstanceUID = s['inst']
                    d.PatientName = 'G'
                    ctx = [c for c in peer.rq['contexts'] if c[1] == s['sop']][0][0]
                    s['pcid'] = ctx
                    peer.send_message(ctx, {0x0002: s['sop'], 0x0100: 0x0001, 0x0110: s['mid'],
                                            0x0700: 0, 0x0800: 1, 0x1000: s['inst']}, enc_ds(d))
                    if case.get('no_pending'):
                        continue         # pending responses are optional
                    peer.send_message(m['pcid'], {0x0002: GET, 0x0100: 0x8010,
                                                  0x0120: f.get(0x0110), 0x0800: 0x0101,
                                                  0x0900: 0xFF00, 0x1020: 1, 0x1021: 0, 0x1022: 0,
                                                  0x1023: 0})
                got['final_due'] = True
            elif f.get(0x0100) == 0x8001:
                got['rsps'].append(m)
                if len(got['rsps']) == len(sub):
                    g = got['get_rq']
                    peer.send_message(g['pcid'], {0x0002: GET, 0x0100: 0x8010,
                                                  0x0120: g['fields'].get(0x0110), 0x0800: 0x0101,
                                                  0x0900: 0, 0x1020: 0, 0x1021: len(sub), 0x1022: 0,
                                                  0x1023: 0})
        world.serve_peer(ADDR, lambda sock: peers.ScriptedAcceptor(world.sim, sock,
                                                                    on_message=on_message))

        class Cli(applicationentity.ClientAE):
            def on_receive_store(self, context, ds):
                if outcome == 'raise':
                    raise exceptions.EventHandlingError('no')
                return status
        cli = world.make_ae(Cli, 'CLI', [rc.IMPLICIT_LE], 16384)
        cli.timeout = 30
        cli.add_scu(sopclass.qr_get_scu).add_scu(sopclass.storage_scu, [CT, MR])
        res = {}

        def user():
            try:
                with cli.request_association({'aet': 'SRV', 'address': ADDR[0],
                                              'port': ADDR[1]}) as assoc:
                    q = pydicom.Dataset()
                    q.PatientName = 'Q'
                    n = 0
                    for ctx, ds in assoc.get_scu(GET)(q, mid):
                        n += 1
                    res['n'] = n
            except Exception as e:  # pylint: disable=broad-except
                res['exc'] = e
        world.spawn(user, 'user')
        world.run(tmax=300)
        world.drain(2.0)
        rsps = got['rsps']
        if len(rsps) != len(sub):
            v('request-not-answered outcome=%s' % outcome,
              '%d C-STORE requests, %d responses; user %r' % (len(sub), len(rsps), res))
        for s, m in zip(sub, rsps):
            f = m['fields']
            if m['pcid'] != s.get('pcid'):
                v('response-on-other-context', 'request on %r response on %d' % (s.get('pcid'),
                                                                                 m['pcid']))
            if f.get(0x0120) != s['mid']:
                v('message-id-being-responded-to-wrong', 'request %d response %r' % (
                    s['mid'], f.get(0x0120)))
            if f.get(0x0002) != s['sop']:
                v('sop-class-not-repeated', 'request %s response %r' % (s['sop'], f.get(0x0002)))
            if f.get(0x1000) != s['inst']:
                v('sop-instance-not-repeated', 'request %s response %r' % (s['inst'],
                                                                           f.get(0x1000)))
            want_st = status if outcome != 'raise' else 0xC000
            if f.get(0x0900) != want_st:
                v('status-not-handler-status outcome=%s' % outcome,
                  'expected %04x got %r' % (want_st, f.get(0x0900)))
        return _fin(world, viol, case)
    finally:
        world.close()


def _fin(world, viol, case):
    sim = world.sim
    seen, uniq = set(), []
    for x in viol:
        if x['sig'] not in seen:
            seen.add(x['sig'])
            uniq.append(x)
    key = '%s/%s/%s/%s/%s' % (case['kind'], case['mid'], case['outcome'], case['pcid'],
                              case['variant'])
    return {'violations': uniq, 'stats': dict(sim.stats), 'digest': sim.digest.hexdigest(),
            'sched_sig': key, 'steps': sim.steps, 'vsecs': sim.now - 1000.0, 'nontrivial': True,
            'sample': {'case': case}}
