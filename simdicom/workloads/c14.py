"""C14 -- rejection, abort and release are reported faithfully to both sides (P2: real AE server
and real ClientAE over the simulated transport; plus a scripted requestor that keeps talking
after being refused)."""
import random

from .. import refcodec as rc, peers
from ..world import SimWorld

PROPERTY = 'C14'
LEVEL = 'exploration'
BUDGET = {'quick': 55, 'thorough': 900}
CHUNK = 8
EXHAUSTIVE = {'quick': False, 'thorough': False}
ADDR = ('srvhost', 11112)
CT = '1.2.840.10008.5.1.4.1.1.2'
RULE = ('cases = scenario {reject with (result, source, reason): all 60 standard triples + seeded '
        'others in 0..255; refused requestor that keeps sending; abort by requestor / by acceptor '
        'with reason 0..255; release by requestor; release by acceptor; context manager left '
        'normally / by an exception} x point in the conversation {before, between, during a '
        'multi-fragment exchange} x seeded schedule and segmentation; fault configuration adds '
        'RST and provider stalls; non-trivial = every case (each one is a full association); '
        'distinct = distinct (scenario, values, point)'
        '; plus: peer answers+aborts in one write; responses in flight at a normal exit; release never answered; exit after a peer-requested release; exit (normal or by error) with 70-400 responses of the peer still unread')
ASSUMPTIONS = ['exceptions at the receiving side are observed by wrapping '
               'Association._get_dul_message from outside',
               'under an injected RST only "no wrong values" is required',
               'stalls are capped below Association.kill()\'s 1 s grace period']


class Boom(Exception):
    pass


def cases(tier, seed):
    rnd = random.Random('c14/%d' % seed)
    for r in (1, 2):
        for s in (1, 2, 3):
            for d in range(1, 11):
                if tier == 'quick' and (r + s + d + seed) % 3:
                    continue
                yield dict(kind='reject', triple=[r, s, d], seed=seed)
    n = 40 if tier == 'quick' else 2000
    for i in range(n):
        yield dict(kind='reject', triple=[rnd.randrange(256) for _ in range(3)],
                   seed=seed * 7 + i)
    for i in range(20 if tier == 'quick' else 300):
        yield dict(kind='reject-keeps-talking', triple=[rnd.choice([1, 2]), rnd.choice([1, 2, 3]),
                                                        rnd.randrange(1, 11)], seed=seed * 11 + i)
    for i in range(150 if tier == 'quick' else 5000):
        yield dict(kind='peer-abort-burst', source=rnd.choice([0, 2, 2, 1]),
                   reason=rnd.choice([0, 1, 2, 6, 200]), after=rnd.choice(['ac', 'echo', 'echo']),
                   nrsp=rnd.choice([1, 1, 3]), seed=seed * 13 + i)
    for i in range(150 if tier == 'quick' else 5000):
        yield dict(kind='exit-normal-response-in-flight',
                   hold=rnd.choice(['until-release', 'until-release', 'no']),
                   one_write=rnd.random() < 0.5, nrq=rnd.choice([1, 1, 2]),
                   first=rnd.random() < 0.5, seed=seed * 17 + i)
    for i in range(40 if tier == 'quick' else 1500):
        yield dict(kind='peer-ends-between-exchanges', how=rnd.choice(['abort', 'abort', 'release']),
                   source=rnd.choice([0, 2]), reason=rnd.choice([0, 1, 5, 200]),
                   pause=rnd.choice([0.2, 0.7, 3.0]), nfirst=rnd.choice([1, 2]),
                   seed=seed * 29 + i)
    for i in range(40 if tier == 'quick' else 1500):
        yield dict(kind='abort-acceptor-while-receiving', reason=rnd.choice([0, 1, 2, 5, 200]),
                   cap=rnd.choice([4096, 16384, None]), size=rnd.choice([60000, 200000]),
                   seed=seed * 31 + i)
    for i in range(30 if tier == 'quick' else 1000):
        yield dict(kind='peer-abort-during-transfer', source=rnd.choice([0, 2]),
                   reason=rnd.choice([0, 1, 5, 200]), after=rnd.choice([2, 5, 9]),
                   cap=rnd.choice([2048, 8192]), seed=seed * 23 + i)
    for i in range(12 if tier == 'quick' else 300):
        yield dict(kind='exit-normal-release-unanswered', first=rnd.random() < 0.5,
                   tmo=rnd.choice([1.0, 5.0, 20.0]), seed=seed * 19 + i)
    # the user leaves the association while most of a long result is still unread (it took the
    # first match of a query and is done): normal exit -> release, exit by error -> abort, with
    # 70-400 responses of the peer waiting for a user that will never take them
    for i in range(24 if tier == 'quick' else 800):
        yield dict(kind='exit-with-unread-results', nrsp=rnd.choice([70, 130, 400]),
                   exc=bool(i % 2), read=rnd.choice([1, 1, 3]), seed=seed * 37 + i)
    points = ['before', 'between', 'during']
    m = 3000 if tier == 'quick' else 100000
    for i in range(m):
        kind = rnd.choice(['abort-requestor', 'abort-acceptor', 'release-requestor',
                           'release-acceptor', 'exit-exception', 'exit-normal'])
        fault = None
        if rnd.random() < 0.15:
            fault = rnd.choice(['rst', 'stall'])
        yield dict(kind=kind, reason=rnd.choice([0, 1, 2, 6, 255, rnd.randrange(256)]),
                   point=rnd.choice(points), frags=rnd.choice([1, 3, 8, 60]), fault=fault,
                   seed=seed * 100003 + i)


def run_case(case):
    from pynetdicom2 import applicationentity, sopclass, exceptions, asceprovider, dimsemessages
    import pydicom
    rnd = random.Random('c14r/%s' % case['seed'])
    world = SimWorld('c14/%s' % case['seed'])
    viol = []
    kind = case['kind']

    def v(rule, detail):
        viol.append({'sig': 'C14 %s scenario=%s' % (rule, kind),
                     'detail': '%s\ncase %r\nhandler errors %r' % (
                         detail, case, world.handler_errors[:2])})
    try:
        seen_exc = []      # (role, exception) raised by _get_dul_message / request
        orig = asceprovider.Association._get_dul_message

        def spy(self):
            try:
                return orig(self)
            except exceptions.NetDICOMError as e:
                role = 'acceptor' if isinstance(self, asceprovider.AssociationAcceptor) \
                    else 'requestor'
                seen_exc.append((role, e))
                raise
        asceprovider.Association._get_dul_message = spy
        wire = []          # (direction, raw bytes)
        services_ran = []
        triple = case.get('triple')
        magic_abort, magic_release = 901, 902

        class Srv(applicationentity.AE):
            def on_association_request(self, asce, assoc):
                if triple is not None:
                    raise exceptions.AssociationRejectedError(*triple)

            def on_receive_store(self, context, ds):
                services_ran.append('store')
                return 0

        def echo_scp(asce, ctx, msg):
            services_ran.append('echo')
            if msg.message_id == magic_abort:
                asce.abort(case['reason'])
                return
            if msg.message_id == magic_release:
                try:
                    asce.release()
                except exceptions.NetDICOMError as e:
                    seen_exc.append(('acceptor-release', e))
                return
            sopclass.verification_scp(asce, ctx, msg)
        echo_scp.sop_classes = [rc.VERIFICATION]

        def store_scp(asce, ctx, msg):
            services_ran.append('store')
            rsp = dimsemessages.CStoreRSPMessage()
            rsp.message_id_being_responded_to = msg.message_id
            rsp.affected_sop_instance_uid = msg.affected_sop_instance_uid
            rsp.sop_class_uid = msg.sop_class_uid
            rsp.status = 0
            asce.send(rsp, ctx.id)
        store_scp.sop_classes = [CT]
        srv = world.make_ae(Srv, 'SRV', 11112, [rc.IMPLICIT_LE], 16384)
        srv.add_scp(echo_scp).add_scp(store_scp)
        srv.timeout = 120

        def on_conn(sock, caddr):
            sock.on_send = lambda s, b: wire.append(('S>C', b))
            sock.peer.on_send = lambda s, b: wire.append(('C>S', b))
            t = world.sim.spawn(lambda: srv.process_request_thread(sock, caddr), name='acc',
                                role='acceptor')
            world.acceptor_tasks.append(t)
        world.net.listen(ADDR, on_conn)
        out = {}
        maxlen = 64 if case.get('frags', 1) > 1 else 16384
        cli = world.make_ae(applicationentity.ClientAE, 'CLI', [rc.IMPLICIT_LE], maxlen)
        cli.timeout = 120
        cli.add_scu(sopclass.verification_scu).add_scu(sopclass.storage_scu, [CT])
        remote = {'aet': 'SRV', 'address': ADDR[0], 'port': ADDR[1]}

        def dataset(n):
            ds = pydicom.Dataset()
            ds.SOPClassUID = CT
            ds.SOPInstanceUID = '1.2.3.%d' % rnd.randrange(10 ** 6)
            ds.PatientName = 'P' * n
            return ds

        if kind == 'peer-abort-burst':
            # a foreign acceptor answers and aborts in ONE write, then closes at once: the
            # response must still be delivered and the abort must carry the peer's fields
            src, rsn = case['source'], case['reason']

            def on_est(peer):
                if case['after'] == 'ac':
                    peer.send(rc.enc_abort(src, rsn))
                    peer.ended = 'aborted-by-script'
                    peer.close()

            def on_msg(peer, m):
                f = m['fields']
                rsp = b''
                for _ in range(case['nrsp']):
                    rsp += rc.enc_pdata([(m['pcid'], 3, rc.enc_command(
                        {0x0002: rc.VERIFICATION, 0x0100: 0x8030, 0x0120: f.get(0x0110),
                         0x0800: 0x0101, 0x0900: 0}))])
                peer.send(rsp + rc.enc_abort(src, rsn))
                peer.close()

            class Acc(peers.ScriptedAcceptor):
                def serve(self):
                    if self.sock.closed:
                        return
                    try:
                        peers.ScriptedAcceptor.serve(self)
                    except OSError:
                        pass
            world.serve_peer(ADDR, lambda sock: Acc(world.sim, sock, on_message=on_msg,
                                                    on_established=on_est))
            got = {}

            def user2():
                try:
                    with cli.request_association(remote) as assoc:
                        got['established'] = True
                        got['st'] = int(assoc.get_scu(rc.VERIFICATION)(1))
                        for j in range(case['nrsp'] - 1):
                            assoc.receive()
                        assoc.receive()
                except Exception as e:  # pylint: disable=broad-except
                    got['exc'] = e
            world.net.listeners.pop(ADDR, None) if False else None
            world.spawn(user2, 'user')
            world.run(tmax=400)
            world.drain(2.0)
            asceprovider.Association._get_dul_message = orig
            e = got.get('exc')
            if case['after'] == 'echo' and got.get('st') != 0:
                v('response-before-abort-lost', 'echo status %r; exc %r' % (got.get('st'), e))
            if not isinstance(e, exceptions.AssociationAbortedError):
                v('abort-not-surfaced-at-requestor', 'user saw %r' % (e,))
            elif (e.source, e.reason_diag) != (src, rsn):
                v('abort-fields-not-preserved', 'peer sent (%d,%d) surfaced %r' % (
                    src, rsn, (e.source, e.reason_diag)))
            return _fin(world, viol, case, wire)
        if kind == 'exit-with-unread-results':
            FIND_ = '1.2.840.10008.5.1.4.1.2.1.1'

            def on_msg8(peer, m):
                if m['fields'].get(0x0100) != 0x0020:
                    return
                for j in range(case['nrsp']):
                    peer.send_message(m['pcid'], {0x0002: FIND_, 0x0100: 0x8020,
                                                  0x0120: m['fields'].get(0x0110), 0x0800: 1,
                                                  0x0900: 0xFF00},
                                      b'\x10\x00\x10\x00\x08\x00\x00\x00' + b'M%07d' % j)
                peer.send_message(m['pcid'], {0x0002: FIND_, 0x0100: 0x8020,
                                              0x0120: m['fields'].get(0x0110), 0x0800: 0x0101,
                                              0x0900: 0})
            seen8 = []

            def factory8(sock):
                sock.peer.on_send = lambda s_, b: seen8.append(b)
                return peers.ScriptedAcceptor(world.sim, sock, on_message=on_msg8)
            world.serve_peer(ADDR, factory8)
            cli.add_scu(sopclass.qr_find_scu)
            cli.timeout = 30.0
            got = {'n': 0}

            class Leave(Exception):
                pass

            def user8():
                try:
                    with cli.request_association(remote) as assoc:
                        q = pydicom.Dataset()
                        q.PatientName = '*'
                        for d, st in assoc.get_scu(FIND_)(q, 5):
                            got['n'] += 1
                            if got['n'] >= case['read']:
                                break
                        # (the provider thread goes on receiving what the peer has sent)
                        world.sim.sleep(1.0)
                        if case['exc']:
                            raise Leave()
                    got['left'] = 'normally'
                except Leave:
                    got['left'] = 'by-error'
                except Exception as e:  # pylint: disable=broad-except
                    got['exc'] = e
            ut8 = world.spawn(user8, 'user')
            world.run(tmax=900)
            world.drain(5.0)
            asceprovider.Association._get_dul_message = orig
            pdus8, _ = rc.parse_stream(b''.join(seen8))
            kinds8 = [p_['kind'] for p_ in pdus8 if p_['kind'] != 'P-DATA-TF'][1:]
            how = 'by-error' if case['exc'] else 'normally'
            if not ut8.done:
                v('user-never-gets-out-of-the-association exit=%s' % how,
                  '%d responses unread; blocked %r' % (case['nrsp'] - got['n'],
                                                       world.sim.blocked_report()))
            elif 'exc' in got and not case['exc'] and not isinstance(
                    got['exc'], exceptions.NetDICOMError):
                v('exit-raised-non-library-error', repr(got['exc']))
            want8 = 'A-ABORT' if case['exc'] else 'A-RELEASE-RQ'
            if kinds8[:1] != [want8]:
                v('exit-%s-not-signalled-to-peer' % how,
                  'left %s with %d of %d responses unread; peer saw %r, expected %s' % (
                      how, case['nrsp'] + 1 - got['n'], case['nrsp'] + 1, kinds8, want8))
            return _fin(world, viol, case, wire)
        if kind == 'peer-ends-between-exchanges':
            # the peer aborts (or asks for release) while the user is between two exchanges:
            # nothing is waiting for a reply at that moment; the NEXT service call must surface
            # it as the corresponding error with the abort fields intact
            src, rsn = case['source'], case['reason']
            cnt = {'n': 0}

            def on_msg2(peer, m):
                cnt['n'] += 1
                peer.send_message(m['pcid'], {0x0002: rc.VERIFICATION, 0x0100: 0x8030,
                                              0x0120: m['fields'].get(0x0110), 0x0800: 0x0101,
                                              0x0900: 0})
                if cnt['n'] == case['nfirst']:
                    peer.sim.sleep(0.05)
                    if case['how'] == 'abort':
                        peer.send(rc.enc_abort(src, rsn))
                    else:
                        peer.send(rc.enc_release_rq())
            world.serve_peer(ADDR, lambda sock: peers.ScriptedAcceptor(
                world.sim, sock, on_message=on_msg2, close_after_release=False))
            cli.timeout = 20.0
            got = {'st': []}

            def user6():
                try:
                    with cli.request_association(remote) as assoc:
                        got['established'] = True
                        for j in range(case['nfirst']):
                            got['st'].append(int(assoc.get_scu(rc.VERIFICATION)(j + 1)))
                        world.sim.sleep(case['pause'])
                        got['second'] = int(assoc.get_scu(rc.VERIFICATION)(9))
                except Exception as e:  # pylint: disable=broad-except
                    got['exc'] = e
            world.spawn(user6, 'user')
            world.run(tmax=600)
            world.drain(5.0)
            asceprovider.Association._get_dul_message = orig
            e = got.get('exc')
            if got.get('st') != [0] * case['nfirst']:
                v('exchange-before-the-ending-failed', repr((got.get('st'), e)))
            elif case['how'] == 'abort':
                if not isinstance(e, exceptions.AssociationAbortedError):
                    v('abort-not-surfaced-at-requestor', 'peer aborted (%d,%d) between two '
                      'exchanges; the next service call gave %r' % (src, rsn, e if e else
                                                                    got.get('second')))
                elif (e.source, e.reason_diag) != (src, rsn):
                    v('abort-fields-not-preserved', 'peer sent (%d,%d) surfaced %r' % (
                        src, rsn, (e.source, e.reason_diag)))
            elif not isinstance(e, exceptions.AssociationReleasedError):
                v('release-not-surfaced-at-requestor', 'peer requested release between two '
                  'exchanges; the next service call gave %r' % (e if e else got.get('second'),))
            return _fin(world, viol, case, wire)
        if kind == 'peer-abort-during-transfer':
            # a slow receiver (little buffering between the applications) aborts while the
            # requestor is in the middle of a long multi-fragment C-STORE and keeps reading:
            # the abort must surface with its source and reason, not as a time-out
            src, rsn = case['source'], case['reason']
            world.net.capacity = case['cap']

            class SlowAcc(peers.ScriptedAcceptor):
                def serve(self):
                    n = 0
                    self.recv_size = 1100        # reads about one PDU at a time
                    while True:
                        p = self.read_pdu(timeout=500.0)
                        if p is None or p == 'timeout':
                            self.close()
                            return
                        n += 1
                        self.sim.sleep(0.25)
                        if n == case['after']:
                            self.send(rc.enc_abort(src, rsn))
                            self.ended = 'aborted-by-script'
            world.serve_peer(ADDR, lambda sock: SlowAcc(world.sim, sock, max_length=1024))
            cli.max_pdu_length = 16384
            # the transfer takes about 30 s at the receiver's pace; the abort comes within 3 s
            # and may wait for one blocked write (a few seconds at most) - the user's own
            # time-out is far from both
            cli.timeout = 14.0
            got = {}

            def user5():
                try:
                    with cli.request_association(remote) as assoc:
                        got['established'] = True
                        got['st'] = int(assoc.get_scu(CT)(dataset(120000), 5))
                except Exception as e:  # pylint: disable=broad-except
                    got['exc'] = e
            world.spawn(user5, 'user')
            world.run(tmax=600)
            world.drain(5.0)
            asceprovider.Association._get_dul_message = orig
            e = got.get('exc')
            if not got.get('established'):
                v('association-not-established', repr(e))
            elif not isinstance(e, exceptions.AssociationAbortedError):
                v('abort-not-surfaced-at-requestor', 'peer aborted (%d,%d) after %d PDUs of a long '
                  'transfer; user saw %r' % (src, rsn, case['after'], e))
            elif (e.source, e.reason_diag) != (src, rsn):
                v('abort-fields-not-preserved', 'peer sent (%d,%d) surfaced %r' % (
                    src, rsn, (e.source, e.reason_diag)))
            return _fin(world, viol, case, wire)
        if kind == 'exit-normal-release-unanswered':
            # the user leaves normally, the peer never answers the A-RELEASE-RQ: the release
            # step fails (time-out), i.e. the association is left through an error - the peer
            # must be told by an A-ABORT and nothing may be left behind
            class Acc3(peers.ScriptedAcceptor):
                def serve(self):
                    while True:
                        p = self.read_pdu(timeout=500.0)
                        if p is None or p == 'timeout':
                            self.ended = self.ended or 'eof'
                            self.close()
                            return
                        if p['kind'] == 'P-DATA-TF':
                            for m in self.feed_pdata(p):
                                self.send_message(m['pcid'], {
                                    0x0002: rc.VERIFICATION, 0x0100: 0x8030,
                                    0x0120: m['fields'].get(0x0110), 0x0800: 0x0101, 0x0900: 0})
                        elif p['kind'] == 'A-ABORT':
                            self.ended = 'aborted'
                            self.close()
                            return
                        # A-RELEASE-RQ: ignored on purpose

            def tap3(s_, b):
                wire.append(('C>S', b))
            world.serve_peer(ADDR, lambda sock: (setattr(sock.peer, 'on_send', tap3),
                                                 Acc3(world.sim, sock))[1])
            cli.timeout = case['tmo']
            got = {}

            def user4():
                try:
                    with cli.request_association(remote) as assoc:
                        if case['first']:
                            got['st'] = int(assoc.get_scu(rc.VERIFICATION)(1))
                    got['left'] = True
                except Exception as e:  # pylint: disable=broad-except
                    got['exc'] = e
            world.spawn(user4, 'user')
            world.run(tmax=400)
            world.drain(35.0)
            asceprovider.Association._get_dul_message = orig
            c2s = _pdus([b for d, b in wire if d == 'C>S'])
            kinds = [p['kind'] for p in c2s]
            if 'A-RELEASE-RQ' not in kinds:
                v('normal-exit-did-not-release', 'client sent %r' % kinds[-5:])
            elif got.get('exc') is not None and 'A-ABORT' not in kinds[kinds.index('A-RELEASE-RQ'):]:
                v('exceptional-exit-did-not-abort point=release-unanswered',
                  'context manager raised %r; client sent %r; peer ended %r' % (
                      got.get('exc'), kinds[-4:], [p.ended for p in world.peers]))
            if got.get('exc') is not None and not isinstance(got['exc'], exceptions.NetDICOMError):
                v('release-failure-not-a-library-error', repr(got['exc']))
            live = [t.name for t in world.sim.tasks if t.role == 'dul' and not t.done]
            if live:
                v('provider-left-running point=release-unanswered', repr(live))
            return _fin(world, viol, case, wire)
        if kind == 'exit-normal-response-in-flight':
            # the user sends requests, does not wait for the responses and leaves the context
            # manager normally: the responses reach the requestor while it awaits the release
            # reply (P-DATA in Sta7).  Leaving normally still means release, never abort.
            held = []

            def rsp_for(m):
                return rc.enc_pdata([(m['pcid'], 3, rc.enc_command(
                    {0x0002: rc.VERIFICATION, 0x0100: 0x8030, 0x0120: m['fields'].get(0x0110),
                     0x0800: 0x0101, 0x0900: 0}))])

            class Acc2(peers.ScriptedAcceptor):
                def serve(self):
                    while True:
                        p = self.read_pdu()
                        if p is None or p == 'timeout':
                            self.ended = self.ended or 'eof'
                            self.close()
                            return
                        if p['kind'] == 'P-DATA-TF':
                            for m in self.feed_pdata(p):
                                if case['hold'] == 'no':
                                    self.send(rsp_for(m))
                                else:
                                    held.append(rsp_for(m))
                        elif p['kind'] == 'A-RELEASE-RQ':
                            if case['one_write']:
                                self.send(b''.join(held) + rc.enc_release_rp())
                            else:
                                for h in held:
                                    self.send(h)
                                self.send(rc.enc_release_rp())
                            self.ended = 'released'
                            self.wait_close()
                            return
                        elif p['kind'] == 'A-ABORT':
                            self.ended = 'aborted'
                            self.close()
                            return
            def tap(s_, b):
                wire.append(('C>S', b))
            world.serve_peer(ADDR, lambda sock: (setattr(sock.peer, 'on_send', tap),
                                                 Acc2(world.sim, sock))[1])
            got = {}

            def user3():
                try:
                    with cli.request_association(remote) as assoc:
                        if case['first']:
                            got['st'] = int(assoc.get_scu(rc.VERIFICATION)(1)) \
                                if case['hold'] == 'no' else None
                        for j in range(case['nrq']):
                            msg = dimsemessages.CEchoRQMessage()
                            msg.message_id = 20 + j
                            msg.sop_class_uid = rc.VERIFICATION
                            assoc.send(msg, assoc.get_scu(rc.VERIFICATION).args[1].id)
                    got['left'] = True
                except Exception as e:  # pylint: disable=broad-except
                    got['exc'] = e
            world.spawn(user3, 'user')
            world.run(tmax=400)
            world.drain(2.0)
            asceprovider.Association._get_dul_message = orig
            c2s = _pdus([b for d, b in wire if d == 'C>S'])
            kinds = [p['kind'] for p in c2s]
            if got.get('exc') is not None or not got.get('left'):
                v('normal-exit-raised', repr(got.get('exc')))
            if 'A-RELEASE-RQ' not in kinds or 'A-ABORT' in kinds:
                v('normal-exit-did-not-release', 'client sent %r; peer ended %r' % (
                    kinds[-5:], [p.ended for p in world.peers]))
            return _fin(world, viol, case, wire)
        if kind == 'reject-keeps-talking':
            def script(peer):
                p = peer.associate()
                out['reply'] = p
                # a misbehaving requestor ignores the refusal and sends requests anyway
                try:
                    peer.send_message(1, {0x0002: rc.VERIFICATION, 0x0100: 0x0030, 0x0110: 1,
                                          0x0800: 0x0101})
                    peer.send_message(3, {0x0002: CT, 0x0100: 0x0001, 0x0110: 2, 0x0700: 0,
                                          0x0800: 1, 0x1000: '1.2.3'}, b'\x10\x00\x10\x00\x02\x00\x00\x00AB')
                    peer.read_pdu(timeout=30.0)
                except OSError:
                    pass
            peer = peers.ScriptedRequestor(world.sim, world.net, ADDR,
                                           ((1, rc.VERIFICATION, (rc.IMPLICIT_LE,)),
                                            (3, CT, (rc.IMPLICIT_LE,))), script=script)
            world.spawn(peer.run, 'peer', role='user')
            world.run(tmax=400)
            world.drain(2.0)
            p = out.get('reply')
            if not isinstance(p, dict) or p.get('kind') != 'A-ASSOCIATE-RJ':
                v('no-associate-rj', 'reply %r' % (p,))
            elif [p['result'], p['source'], p['reason']] != triple:
                v('rj-fields-differ-from-application', 'wire %r application %r' % (
                    [p['result'], p['source'], p['reason']], triple))
            if services_ran:
                v('service-invoked-on-refused-association', repr(services_ran))
            return _fin(world, viol, case, wire)

        if kind == 'abort-acceptor-while-receiving':
            # the accepting application aborts (from its handler thread) while a large C-STORE
            # from the requestor is still pouring in: the requestor, busy writing, must still get
            # the A-ABORT with the acceptor's reason, not a bare connection loss
            world.net.capacity = case['cap']
            cli.max_pdu_length = 16384
            cli.timeout = 60.0
            got = {}

            def user7():
                try:
                    with cli.request_association(remote) as assoc:
                        got['established'] = True
                        msg = dimsemessages.CEchoRQMessage()
                        msg.message_id = magic_abort
                        msg.sop_class_uid = rc.VERIFICATION
                        assoc.send(msg, assoc.get_scu(rc.VERIFICATION).args[1].id)
                        got['st'] = int(assoc.get_scu(CT)(dataset(case['size']), 5))
                except Exception as e:  # pylint: disable=broad-except
                    got['exc'] = e
            world.spawn(user7, 'user')
            world.run(tmax=600)
            world.drain(5.0)
            asceprovider.Association._get_dul_message = orig
            e = got.get('exc')
            s2c = _pdus([b for d, b in wire if d == 'S>C'])
            sent_abort = [p for p in s2c if p['kind'] == 'A-ABORT']
            if not got.get('established'):
                v('association-not-established', repr(e))
            elif not sent_abort:
                v('abort-not-transmitted', 'server sent %r' % [p['kind'] for p in s2c][-4:])
            elif not isinstance(e, exceptions.AssociationAbortedError):
                v('abort-not-surfaced-at-requestor', 'user saw %r' % (e,))
            elif (e.source, e.reason_diag) != (2, case['reason']):
                v('abort-fields-not-preserved point=while-receiving',
                  'acceptor aborted with (2,%d) while %d bytes were pouring in; the requestor '
                  'reports %r' % (case['reason'], case['size'], (e.source, e.reason_diag)))
            return _fin(world, viol, case, wire)

        def user():
            try:
                with cli.request_association(remote) as assoc:
                    out['established'] = True
                    echo = assoc.get_scu(rc.VERIFICATION)
                    store = assoc.get_scu(CT)
                    point = case.get('point', 'before')
                    if point in ('between', 'during'):
                        out['st0'] = int(echo(1))
                    if kind in ('abort-requestor', 'exit-exception') and point == 'during':
                        # leave in the middle of a multi-fragment transfer: the request has been
                        # handed to send() but its fragments are still being transmitted
                        ds = dataset(40 * case['frags'])
                        msg = dimsemessages.CStoreRQMessage()
                        msg.message_id = 5
                        msg.priority = 0
                        msg.sop_class_uid = CT
                        msg.affected_sop_instance_uid = ds.SOPInstanceUID
                        from pynetdicom2 import dsutils
                        msg.data_set = dsutils.encode(ds, True, True)
                        assoc.send(msg, store.args[1].id)
                    elif point == 'during':
                        out['st1'] = int(store(dataset(40 * case['frags']), 5))
                    out['point_reached'] = True
                    if kind == 'abort-requestor':
                        assoc.abort(case['reason'])
                        out['aborted'] = True
                    elif kind == 'abort-acceptor':
                        echo(magic_abort)
                    elif kind == 'release-acceptor':
                        echo(magic_release)
                    elif kind == 'exit-exception':
                        raise Boom('user code failed')
                    else:
                        out['st2'] = int(echo(7))
            except Exception as e:  # pylint: disable=broad-except
                out['exc'] = e
        t = world.spawn(user, 'user')
        if case.get('fault') == 'rst':
            from .. import sched
            k = rnd.randint(20, 200)
            world.sim.actors.append(sched.Trigger(
                'rst', lambda: world.sim.steps >= k and len(world.net.sockets) >= 2,
                lambda: (world.net.sockets[0].reset(), world.sim.bump('fault.rst'))))
        elif case.get('fault') == 'stall':
            from .. import sched
            k = rnd.randint(20, 200)

            def do_stall():
                duls = [x for x in world.sim.tasks if x.role == 'dul' and not x.done]
                if duls:
                    world.sim.stall(rnd.choice(duls), rnd.choice([0.1, 0.3, 0.6]))
            world.sim.actors.append(sched.Trigger('stall', lambda: world.sim.steps >= k, do_stall))
        world.run(tmax=900)
        world.drain(3.0)
        asceprovider.Association._get_dul_message = orig
        exc = out.get('exc')
        faulty = case.get('fault') == 'rst'
        c2s = _pdus([b for d, b in wire if d == 'C>S'])
        s2c = _pdus([b for d, b in wire if d == 'S>C'])
        for name, seq in (('client', c2s), ('server', s2c)):
            if any(p['kind'] == 'MALFORMED' for p in seq):
                v('malformed-pdu-on-wire from=%s' % name, repr([p['kind'] for p in seq]))
        if kind == 'reject':
            rj = [p for p in s2c if p['kind'] == 'A-ASSOCIATE-RJ']
            if not rj:
                v('no-associate-rj', 'server sent %r' % [p['kind'] for p in s2c])
            elif [rj[0]['result'], rj[0]['source'], rj[0]['reason']] != triple:
                v('rj-fields-differ-from-application', 'wire %r application %r' % (
                    [rj[0]['result'], rj[0]['source'], rj[0]['reason']], triple))
            if not isinstance(exc, exceptions.AssociationRejectedError):
                v('requestor-did-not-raise-rejected', 'raised %r' % (exc,))
            elif [exc.result, exc.source, exc.diagnostic] != triple:
                v('rejected-error-fields-differ', 'error %r application %r' % (
                    [exc.result, exc.source, exc.diagnostic], triple))
            if services_ran or out.get('established'):
                v('service-invoked-on-refused-association', repr(services_ran))
            return _fin(world, viol, case, wire)
        if not out.get('established'):
            if not faulty:
                v('association-not-established', 'exc %r' % (exc,))
            return _fin(world, viol, case, wire)
        aborts_c = [p for p in c2s if p['kind'] == 'A-ABORT']
        aborts_s = [p for p in s2c if p['kind'] == 'A-ABORT']
        acc_exc = [e for r, e in seen_exc if r == 'acceptor']
        req_exc = [e for r, e in seen_exc if r == 'requestor']
        if faulty:
            # narrow relaxation: whatever surfaced must carry values that were really sent
            for e in acc_exc + req_exc:
                if isinstance(e, exceptions.AssociationAbortedError):
                    sent = [(p['source'], p['reason']) for p in aborts_c + aborts_s] + [(0, 0)]
                    if (e.source, e.reason_diag) not in sent:
                        v('abort-error-with-values-never-sent', repr((e.source, e.reason_diag)))
            return _fin(world, viol, case, wire)
        if kind == 'abort-requestor':
            if not aborts_c:
                v('abort-not-transmitted point=%s' % case['point'],
                  'client sent %r; user exc %r' % ([p['kind'] for p in c2s][-6:], exc))
            else:
                if (aborts_c[0]['source'], aborts_c[0]['reason']) != (0, case['reason']):
                    v('abort-pdu-fields-wrong', repr(aborts_c[0]))
                ab = [e for e in acc_exc if isinstance(e, exceptions.AssociationAbortedError)]
                if not ab:
                    v('abort-not-surfaced-at-acceptor point=%s' % case['point'],
                      'acceptor errors %r' % acc_exc)
                elif (ab[0].source, ab[0].reason_diag) != (0, case['reason']):
                    v('abort-fields-not-preserved', 'sent (0,%d) surfaced %r' % (
                        case['reason'], (ab[0].source, ab[0].reason_diag)))
        elif kind == 'abort-acceptor':
            if not aborts_s:
                v('abort-not-transmitted', 'server sent %r' % [p['kind'] for p in s2c][-6:])
            else:
                if (aborts_s[0]['source'], aborts_s[0]['reason']) != (2, case['reason']):
                    v('abort-pdu-fields-wrong', repr(aborts_s[0]))
                if not isinstance(exc, exceptions.AssociationAbortedError):
                    v('abort-not-surfaced-at-requestor', 'user saw %r' % (exc,))
                elif (exc.source, exc.reason_diag) != (2, case['reason']):
                    v('abort-fields-not-preserved', 'sent (2,%d) surfaced %r' % (
                        case['reason'], (exc.source, exc.reason_diag)))
        elif kind in ('release-requestor', 'exit-normal'):
            kinds = [p['kind'] for p in c2s]
            if exc is not None:
                v('normal-exit-raised', repr(exc))
            if 'A-RELEASE-RQ' not in kinds or aborts_c or aborts_s:
                v('normal-exit-did-not-release', 'client sent %r server sent %r' % (
                    kinds[-5:], [p['kind'] for p in s2c][-5:]))
            if 'A-RELEASE-RP' not in [p['kind'] for p in s2c]:
                v('release-not-answered', repr([p['kind'] for p in s2c][-5:]))
            if not any(isinstance(e, exceptions.AssociationReleasedError) for e in acc_exc):
                v('release-not-surfaced-at-acceptor', repr(acc_exc))
        elif kind == 'release-acceptor':
            if 'A-RELEASE-RQ' not in [p['kind'] for p in s2c]:
                v('release-not-transmitted', repr([p['kind'] for p in s2c][-5:]))
            elif not isinstance(exc, exceptions.AssociationReleasedError):
                v('release-not-surfaced-at-requestor', 'user saw %r' % (exc,))
            elif not aborts_c and 'A-RELEASE-RP' not in [p['kind'] for p in c2s]:
                # the requesting context manager was left through an error (the release error):
                # that aborts the association - the peer must see it end, not a silent drop
                v('exceptional-exit-did-not-abort point=after-peer-release',
                  'client sent %r after the A-RELEASE-RQ' % [p['kind'] for p in c2s][-4:])
        elif kind == 'exit-exception':
            if not isinstance(exc, Boom):
                v('user-exception-replaced', 'user code raised Boom, context manager raised %r'
                  % (exc,))
            if not aborts_c:
                v('exceptional-exit-did-not-abort point=%s' % case['point'],
                  'client sent %r' % [p['kind'] for p in c2s][-6:])
            if 'A-RELEASE-RQ' in [p['kind'] for p in c2s]:
                v('exceptional-exit-released', repr([p['kind'] for p in c2s][-6:]))
        return _fin(world, viol, case, wire)
    finally:
        try:
            from pynetdicom2 import asceprovider as _a
            if getattr(_a.Association._get_dul_message, '__name__', '') == 'spy':
                _a.Association._get_dul_message = orig
        except Exception:  # pylint: disable=broad-except
            pass
        world.close()


def _pdus(chunks):
    pdus, rem = rc.parse_stream(b''.join(chunks))
    if rem:
        pdus.append({'kind': 'MALFORMED', 'error': 'trailing %d bytes' % len(rem)})
    return pdus


def _fin(world, viol, case, wire):
    sim = world.sim
    seen, uniq = set(), []
    for x in viol:
        if x['sig'] not in seen:
            seen.add(x['sig'])
            uniq.append(x)
    key = '%s/%s/%s/%s/%s' % (case['kind'], case.get('triple'), case.get('reason'),
                              case.get('point'), case.get('fault'))
    return {'violations': uniq, 'stats': dict(sim.stats), 'digest': sim.digest.hexdigest(),
            'sched_sig': key, 'steps': sim.steps, 'vsecs': sim.now - 1000.0, 'nontrivial': True,
            'sample': {'case': case}}
