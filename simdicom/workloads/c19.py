"""C19 -- retrieve (C-GET / C-MOVE) performs each sub-operation exactly once, with true progress.

C-GET: the real qr_get_scu on a real ClientAE against a scripted SCP that interleaves pending
C-GET responses with C-STORE requests.  C-MOVE: a scripted move SCU, the real qr_move_scp on a
real AE, and a real destination AE reached over a second simulated association (three nodes)."""
import random

from .. import refcodec as rc, peers
from ..world import SimWorld
from .c15 import enc

PROPERTY = 'C19'
LEVEL = 'exploration'
BUDGET = {'quick': 55, 'thorough': 900}
CHUNK = 4
EXHAUSTIVE = {'quick': False, 'thorough': False}
ADDR = ('srvhost', 11112)
DEST = ('desthost', 4006)
CT = '1.2.840.10008.5.1.4.1.1.2'
MR = '1.2.840.10008.5.1.4.1.1.4'
GET = '1.2.840.10008.5.1.4.1.2.1.3'
MOVE = '1.2.840.10008.5.1.4.1.2.1.2'
RULE = ('cases = operation {C-GET, C-MOVE} x sub-operation count 0..6 x per-sub-operation outcome '
        '{success, warning, failure} x interleaving of pending C-GET responses with C-STORE '
        'requests x message ids x context ids x in-memory / file-backed reception x schedule '
        '(uniform, provider stalls); non-trivial = >= 2 sub-operations or the empty retrieve; '
        'distinct = distinct scheduler signatures'
        '; destination real / never answering the release / unknown to the application / refusing the connection; C-GET handler outcomes incl. EventHandlingError; zero-remaining progress; a second retrieve on the same association; C-GET provider window of 1-8 outstanding sub-operations')
ASSUMPTIONS = ['"performed" = completed + failed + warning as reported (either the completed '
               'counter alone or the sum may equal k)',
               'all contexts of a C-GET association use one transfer syntax (documented '
               'restriction of the library)']
OUT = {'success': 0x0000, 'warning': 0xB000, 'failure': 0xA700}


def cases(tier, seed):
    rnd = random.Random('c19/%d' % seed)
    n = 4000 if tier == 'quick' else 120000
    for i in range(n):
        k = rnd.choice([0, 0, 1, 2, 3, 4, 6])
        op = rnd.choice(['get', 'move', 'move'])
        # 'raise': the C-GET user's storage handler refuses the instance (EventHandlingError)
        kinds = ['success', 'success', 'warning', 'failure'] + (['raise'] if op == 'get' else [])
        yield dict(op=op, n=k,
                   outcomes=[rnd.choice(kinds) for _ in range(k)],
                   pending=rnd.choice(['none', 'after-each', 'random', 'zero-remaining']),
                   twice=rnd.random() < 0.5,
                   in_file=rnd.random() < 0.4, mid=rnd.choice([0, 1, 255, 65535, rnd.randrange(65536)]),
                   stall=rnd.random() < 0.2, maxlen=rnd.choice([64, 256, 16384]),
                   dest=rnd.choice(['real', 'real', 'real', 'never-answers-release', 'unknown',
                                    'refused']),
                   dup_ctx=rnd.random() < 0.25, window=rnd.choice([1, 1, 2, 3, 8]),
                   seed=seed * 100003 + i)


_orig_cases = cases


def cases(tier, seed):      # noqa: F811
    # two C-MOVE operations served by the same entity at the same time (own requestors, own
    # message ids, own instances), with line-level pre-emption in the provider: each one's
    # progress reports and final response must be its own
    rnd = random.Random('c19d/%d' % seed)
    for i in range(150 if tier == 'quick' else 6000):
        k = rnd.choice([1, 2, 3, 4])
        yield dict(op='move', n=k, outcomes=['success'] * k, pending='none', twice=False,
                   in_file=False, mid=rnd.choice([1, 255, 4660]), stall=False,
                   maxlen=rnd.choice([256, 16384]), dest='real', dual=True,
                   seed=seed * 100109 + i)
    for c in _orig_cases(tier, seed):
        yield c


def _inst(rnd, k, sop):
    import pydicom
    ds = pydicom.Dataset()
    ds.SOPClassUID = sop
    ds.SOPInstanceUID = '1.2.826.0.1.19.%d.%d' % (k, rnd.randrange(10 ** 6))
    ds.PatientName = 'R%d%s' % (k, 'y' * rnd.randint(0, 200))
    return ds


def run_case(case):
    return _get(case) if case['op'] == 'get' else _move(case)


def _stall(world, rnd):
    from .. import sched
    k = rnd.randint(30, 300)

    def do_stall():
        duls = [x for x in world.sim.tasks if x.role == 'dul' and not x.done]
        if duls:
            world.sim.stall(rnd.choice(duls), rnd.choice([0.1, 0.5, 0.9]))
    world.sim.actors.append(sched.Trigger('stall', lambda: world.sim.steps >= k, do_stall))


def _fin(world, viol, case, extra=None):
    sim = world.sim
    seen, uniq = set(), []
    for x in viol:
        if x['sig'] not in seen:
            seen.add(x['sig'])
            uniq.append(x)
    return {'violations': uniq, 'stats': dict(sim.stats), 'digest': sim.digest.hexdigest(),
            'sched_sig': sim.sched_sig.hexdigest(), 'steps': sim.steps,
            'vsecs': sim.now - 1000.0, 'nontrivial': case['n'] >= 2 or case['n'] == 0,
            'sample': {'case': case, 'observed': extra}}


def _get(case):
    from pynetdicom2 import applicationentity, sopclass, exceptions
    import pydicom
    rnd = random.Random('c19g/%s' % case['seed'])
    world = SimWorld('c19/%s' % case['seed'], with_fs=True)
    viol = []

    def v(rule, detail):
        viol.append({'sig': 'C19 %s op=get' % rule, 'detail': '%s\ncase %r' % (detail, case)})
    try:
        subs = []
        for k in range(case['n']):
            sop = rnd.choice([CT, MR])
            subs.append(dict(ds=_inst(rnd, k, sop), sop=sop, mid=rnd.choice([0, 1, 77, 65535, k]),
                             outcome=case['outcomes'][k]))
        state = {'rsps': [], 'i': 0, 'final_sent': False}
        # how the provider concludes: success, warning (sub-operations complete with failures),
        # failure, cancel -- every non-pending status ends the operation
        final_status = rnd.choice([0x0000, 0x0000, 0xB000, 0xB000, 0xA702, 0xC001, 0xFE00])

        subs1 = subs
        subs2 = []
        if case.get('twice'):
            sop2 = rnd.choice([CT, MR])
            subs2 = [dict(ds=_inst(rnd, 90 + k, sop2), sop=sop2, mid=900 + k, outcome='success')
                     for k in range(rnd.randint(1, 2))]

        def next_store(peer):
            i = state['i']
            subs = subs1 if state.get('round', 1) == 1 else subs2
            if i >= len(subs):
                g = state['get']
                if case['pending'] == 'zero-remaining' and not state.get('zero_sent'):
                    # progress report after the last sub-operation: pending, nothing remaining
                    state['zero_sent'] = True
                    peer.send_message(g['pcid'], {0x0002: GET, 0x0100: 0x8010,
                                                  0x0120: g['fields'].get(0x0110),
                                                  0x0800: 0x0101, 0x0900: 0xFF00, 0x1020: 0,
                                                  0x1021: len(subs), 0x1022: 0, 0x1023: 0})
                # a warning / failure conclusion carries an Identifier (Failed SOP Instance UID
                # List) - a data set kept in memory, right behind instances kept in files
                ident = None
                if final_status in (0xB000, 0xA702, 0xC001) and (case['seed'] % 3) != 0:
                    uid_ = b'1.2.3.4.5.6'
                    ident = b'\x08\x00\x58\x00' + len(uid_ + b'\x00').to_bytes(4, 'little') + \
                        uid_ + b'\x00'
                peer.send_message(g['pcid'], {0x0002: GET, 0x0100: 0x8010,
                                              0x0120: g['fields'].get(0x0110),
                                              0x0800: 0x0101 if ident is None else 1,
                                              0x0900: final_status, 0x1020: 0, 0x1021: len(subs),
                                              0x1022: 0, 0x1023: 0}, ident)
                state['final_sent'] = True
                return
            s = subs[i]
            # (a storage class may have been negotiated on more than one context: the request
            # goes out on any of them and must be answered THERE)
            cands = [c for c in peer.rq['contexts'] if c[1] == s['sop']]
            ctx = cands[(i + case['seed']) % len(cands)][0]
            s['pcid'] = ctx
            pend = case['pending']
            if pend == 'after-each' or (pend == 'random' and rnd.random() < 0.5):
                g = state['get']
                peer.send_message(g['pcid'], {0x0002: GET, 0x0100: 0x8010,
                                              0x0120: g['fields'].get(0x0110), 0x0800: 0x0101,
                                              0x0900: 0xFF00, 0x1020: len(subs) - i, 0x1021: i,
                                              0x1022: 0, 0x1023: 0})
            peer.send_message(ctx, {0x0002: s['sop'], 0x0100: 0x0001, 0x0110: s['mid'],
                                    0x0700: 0, 0x0800: 1,
                                    0x1000: str(s['ds'].SOPInstanceUID)}, enc(s['ds'], rc.IMPLICIT_LE))
            state['i'] += 1

        def on_message(peer, m):
            f = m['fields']
            if f.get(0x0100) == 0x0010:
                if 'get' in state:
                    state['round'] = 2
                    state['i'] = 0
                    state['zero_sent'] = False
                    state['rsps1'] = state['rsps']
                    state['rsps'] = []
                state['get'] = m
                # a provider may keep several sub-operations outstanding: it does not have to
                # wait for one C-STORE response before it sends the next request
                cur = subs1 if state.get('round', 1) == 1 else subs2
                for _ in range(max(1, min(case.get('window', 1), len(cur)))):
                    next_store(peer)
            elif f.get(0x0100) == 0x8001:
                state['rsps'].append(m)
                cur = subs1 if state.get('round', 1) == 1 else subs2
                if state['i'] < len(cur) or len(state['rsps']) >= len(cur):
                    next_store(peer)
        world.serve_peer(ADDR, lambda sock: peers.ScriptedAcceptor(world.sim, sock,
                                                                    on_message=on_message))
        handled = []

        class Cli(applicationentity.ClientAE):
            def on_receive_store(self, context, ds):
                handled.append(1)
                allsubs = subs1 + subs2
                oc = allsubs[min(len(handled), len(allsubs)) - 1]['outcome']
                if oc == 'raise':
                    raise exceptions.EventHandlingError('refused')
                return OUT[oc]
        cli = world.make_ae(Cli, 'CLI', [rc.IMPLICIT_LE], case['maxlen'])
        cli.timeout = 300
        cli.add_scu(sopclass.qr_get_scu)

        def store_user(asce, ctx, *a):
            return None
        store_user.sop_classes = [CT, MR]
        if case['in_file']:
            store_user.store_in_file = True
        cli.add_scu(store_user)
        if case.get('dup_ctx'):
            # the application put a second presentation context for the same storage classes
            # into the entity's (public) context table
            from pynetdicom2 import asceprovider as _ap
            nxt = max(cli.context_def_list) + 2
            for sop_ in (CT, MR):
                cli.context_def_list[nxt] = _ap.PContextDef(nxt, sop_, [rc.IMPLICIT_LE])
                nxt += 2
        got = []
        got2 = []
        out = {}

        def user():
            try:
                with cli.request_association({'aet': 'SRV', 'address': ADDR[0],
                                              'port': ADDR[1]}) as assoc:
                    q = pydicom.Dataset()
                    q.PatientName = 'Q'
                    for rnd_no in (1, 2) if case.get('twice') else (1,):
                        dst = got if rnd_no == 1 else got2
                        for ctx, ds in assoc.get_scu(GET)(q, case['mid']):
                            if hasattr(ds, 'read'):
                                b = bytes(ds.data)
                                i = b.find(b'1.2.826.0.1.19.')
                                j = i
                                while j < len(b) and (48 <= b[j] <= 57 or b[j] == 46):
                                    j += 1
                                dst.append(b[i:j].decode())
                            else:
                                dst.append(str(ds.SOPInstanceUID))
                out['done'] = True
            except Exception as e:  # pylint: disable=broad-except
                import traceback
                out['exc'] = e
                out['tb'] = traceback.format_exc()
        world.spawn(user, 'user')
        if case['stall']:
            _stall(world, rnd)
        world.run(tmax=1500)
        world.drain(2.0)
        if 'exc' in out:
            v('retrieve-user-failed exc=%s' % type(out['exc']).__name__, out['tb'])
            return _fin(world, viol, case)
        rsps = state.get('rsps1', state['rsps']) if case.get('twice') else state['rsps']
        if case.get('twice'):
            want2 = [str(s_['ds'].SOPInstanceUID) for s_ in subs2]
            if got2 != want2:
                v('second-retrieve-on-same-association-differs pending=%s' % case['pending'],
                  'second C-GET: sent %r yielded %r (first: %r)' % (want2, got2, got))
        if len(rsps) != len(subs):
            v('store-requests-not-answered-once', '%d requests, %d responses' % (len(subs),
                                                                                len(rsps)))
        for s, m in zip(subs, rsps):
            f = m['fields']
            if m['pcid'] != s['pcid']:
                v('store-response-on-other-context', 'request %d response %d' % (s['pcid'],
                                                                                 m['pcid']))
            if f.get(0x0120) != s['mid'] or f.get(0x1000) != str(s['ds'].SOPInstanceUID):
                v('store-response-does-not-match-request', 'request (%d, %s) response (%r, %r)' % (
                    s['mid'], s['ds'].SOPInstanceUID, f.get(0x0120), f.get(0x1000)))
            if s['outcome'] == 'raise':
                if f.get(0x0900) in (0x0000, 0xFF00, 0xFF01, None, ''):
                    v('refused-instance-acknowledged', 'handler raised EventHandlingError, '
                      'response status %r' % (f.get(0x0900),))
            elif f.get(0x0900) != OUT[s['outcome']]:
                v('store-response-status-wrong', 'handler %04x response %r' % (
                    OUT[s['outcome']], f.get(0x0900)))
        # an instance the handler refused may or may not be handed on; all others exactly once,
        # and the order is the order of arrival
        want = [str(s['ds'].SOPInstanceUID) for s in subs]
        optional = set(str(s['ds'].SOPInstanceUID) for s in subs if s['outcome'] == 'raise')
        must = [u for u in want if u not in optional]
        got_must = [u for u in got if u not in optional]
        it = iter(want)
        in_order = all(any(u == w for w in it) for u in got)
        if got_must != must or not in_order or len(set(got)) != len(got):
            v('instances-not-yielded-once-in-order', 'sent %r\nyielded %r (refused by the '
              'handler: %r)' % (want, got, sorted(optional)))
        if not state['final_sent'] or not out.get('done'):
            v('operation-did-not-end-at-final-response', repr(out))
        return _fin(world, viol, case, {'yielded': len(got)})
    finally:
        world.close()


def _move(case):
    from pynetdicom2 import applicationentity, sopclass, exceptions
    import pydicom
    rnd = random.Random('c19m/%s' % case['seed'])
    world = SimWorld('c19/%s/m' % case['seed'], with_fs=True)
    viol = []

    def v(rule, detail):
        viol.append({'sig': 'C19 %s op=move' % rule,
                     'detail': '%s\ncase %r\nhandler errors %r' % (detail, case,
                                                                   world.handler_errors[:1])})
    pre = None
    try:
        if case.get('dual'):
            from .. import preempt
            pre = preempt.Preempter(world.sim, prob=0.4, park_prob=0.25, park_max=0.1,
                                    funcs={'qr_move_scp', '_send_response', 'send', 'encode',
                                           'set_length', 'storage_scu'},
                                    files=('sopclass.py',))
            pre.install()
        # destination unknown to the application: it answers like the library's default
        # on_receive_move (no remote AE, zero operations, empty iterator)
        unknown = case.get('dest') == 'unknown'
        n = 0 if unknown else case['n']
        insts = [_inst(rnd, k, rnd.choice([CT, MR])) for k in range(n)]
        stored = []        # at the destination, in arrival order
        dest_conns = []
        moves = []

        class Dest(applicationentity.AE):
            def on_receive_store(self, context, ds):
                data = bytes(ds) if not hasattr(ds, 'read') else bytes(ds.data)
                i = data.find(b'1.2.826.0.1.19.')
                j = i
                while j < len(data) and (48 <= data[j] <= 57 or data[j] == 46):
                    j += 1
                stored.append(data[i:j].decode())
                if case.get('dual'):
                    return 0
                return OUT[case['outcomes'][len(stored) - 1]] if len(stored) <= n else 0

        def store_mem(asce, ctx, msg):
            from pynetdicom2 import dimsemessages
            st = asce.ae.on_receive_store(ctx, msg.data_set)
            rsp = dimsemessages.CStoreRSPMessage()
            rsp.message_id_being_responded_to = msg.message_id
            rsp.affected_sop_instance_uid = msg.affected_sop_instance_uid
            rsp.sop_class_uid = msg.sop_class_uid
            rsp.status = int(st)
            asce.send(rsp, ctx.id)
        store_mem.sop_classes = [CT, MR]
        dest = world.make_ae(Dest, 'DEST', 4006, [rc.IMPLICIT_LE], 16384)
        dest.timeout = 300
        dest.add_scp(store_mem)
        slow_release = case.get('dest') == 'never-answers-release'
        refused = case.get('dest') == 'refused'
        if refused:
            pass            # nobody listens at DEST: the sub-association's connect() is refused
        elif not slow_release:
            world.serve_ae(dest, DEST)
            inner_cb, inner_opts = world.net.listeners[DEST]
            world.net.listeners[DEST] = (
                lambda sock, caddr: (dest_conns.append(1), inner_cb(sock, caddr))[1], inner_opts)
        else:
            # a foreign destination that performs and answers every C-STORE but never answers
            # the A-RELEASE-RQ of the sub-association
            def dest_msg(peer, m):
                f = m['fields']
                if f.get(0x0100) == 0x0001:
                    data = m['data'] or b''
                    i = data.find(b'1.2.826.0.1.19.')
                    j = i
                    while j < len(data) and (48 <= data[j] <= 57 or data[j] == 46):
                        j += 1
                    stored.append(data[i:j].decode())
                    st = OUT[case['outcomes'][len(stored) - 1]] if len(stored) <= n else 0
                    peer.send_message(m['pcid'], {0x0002: f.get(0x0002), 0x0100: 0x8001,
                                                  0x0120: f.get(0x0110), 0x0800: 0x0101,
                                                  0x0900: st, 0x1000: f.get(0x1000)})

            class SlowDest(peers.ScriptedAcceptor):
                def serve(self):
                    while True:
                        p = self.read_pdu()
                        if p is None or p == 'timeout':
                            self.close()
                            return
                        if p['kind'] == 'P-DATA-TF':
                            for m in self.feed_pdata(p):
                                dest_msg(self, m)
                        elif p['kind'] == 'A-ABORT':
                            self.close()
                            return
                        # A-RELEASE-RQ: ignored on purpose
            world.serve_peer(DEST, lambda sock: SlowDest(world.sim, sock))
        other_hits = []
        world.serve_peer(('otherhost', 4007), lambda sock: (other_hits.append(1),
                                                             peers.ScriptedAcceptor(world.sim, sock))[1])

        rival_insts = [_inst(rnd, 70 + k_, CT) for k_ in range(rnd.randint(1, 3))] \
            if case.get('dual') else []
        rival_uids = set(str(d_.SOPInstanceUID) for d_ in rival_insts)

        class Srv(applicationentity.AE):
            def on_receive_move(self, context, ds, destination):
                moves.append(str(destination))
                if str(getattr(ds, 'PatientName', '')) == 'RIVAL':
                    return ({'aet': 'DEST', 'address': DEST[0], 'port': DEST[1]},
                            len(rival_insts), iter(list(rival_insts)))
                if unknown:
                    return applicationentity.AE.on_receive_move(self, context, ds, destination)

                def gen():
                    for d in insts:
                        yield d
                return {'aet': 'DEST', 'address': DEST[0], 'port': DEST[1]}, n, gen()
        srv = world.make_ae(Srv, 'SRV', 11112, [rc.IMPLICIT_LE], case['maxlen'])
        srv.timeout = 300 if not slow_release else 6
        srv.add_scp(sopclass.qr_move_scp)
        srv.add_scu(sopclass.storage_scu, [CT, MR])
        world.serve_ae(srv, ADDR)
        out = {'rsps': []}
        pcid = rnd.choice([1, 3, 5])

        def script(peer):
            p = peer.associate()
            if not isinstance(p, dict) or p['kind'] != 'A-ASSOCIATE-AC':
                out['noassoc'] = p
                return
            q = pydicom.Dataset()
            q.PatientName = 'Q'
            peer.send_message(pcid, {0x0002: MOVE, 0x0100: 0x0021, 0x0110: case['mid'],
                                     0x0700: 0, 0x0800: 1, 0x0600: 'DEST'},
                              enc(q, rc.IMPLICIT_LE))
            while True:
                m = peer.read_message(timeout=200.0)
                if not isinstance(m, dict) or 'fields' not in m:
                    out['instead'] = m
                    break
                out['rsps'].append(m)
                if m['fields'].get(0x0900) not in (0xFF00, 0xFF01):
                    # look for anything that still follows the final response
                    # (a destination that never answers the release keeps the provider busy for
                    # its whole time-out: whatever it sends then is still "after the final")
                    extra = peer.read_message(timeout=3.0 if not slow_release else 12.0)
                    if isinstance(extra, dict) and 'fields' in extra:
                        out['after_final'] = extra
                    break
            if not peer.eof and not peer.reset:
                try:
                    peer.release()
                except OSError:
                    pass
        peer = peers.ScriptedRequestor(world.sim, world.net, ADDR,
                                       tuple((i, MOVE, (rc.IMPLICIT_LE,)) for i in (1, 3, 5)),
                                       script=script)
        world.spawn(peer.run, 'scu', role='user')
        rival = {'rsps': []}
        if case.get('dual'):
            mid2 = case['mid'] + 7

            def script2(p2):
                a2 = p2.associate()
                if not isinstance(a2, dict) or a2['kind'] != 'A-ASSOCIATE-AC':
                    return
                q2 = pydicom.Dataset()
                q2.PatientName = 'RIVAL'
                p2.send_message(1, {0x0002: MOVE, 0x0100: 0x0021, 0x0110: mid2, 0x0700: 0,
                                    0x0800: 1, 0x0600: 'DEST'}, enc(q2, rc.IMPLICIT_LE))
                while True:
                    m2 = p2.read_message(timeout=200.0)
                    if not isinstance(m2, dict) or 'fields' not in m2:
                        break
                    rival['rsps'].append(m2)
                    if m2['fields'].get(0x0900) not in (0xFF00, 0xFF01):
                        break
                if not p2.eof and not p2.reset:
                    try:
                        p2.release()
                    except OSError:
                        pass
            rival['mid'] = mid2
            peer2 = peers.ScriptedRequestor(world.sim, world.net, ADDR,
                                            ((1, MOVE, (rc.IMPLICIT_LE,)),), script=script2)
            world.spawn(peer2.run, 'scu2', role='user')
        if case['stall']:
            _stall(world, rnd)
        try:
            world.run(tmax=1500)
            world.drain(3.0)
        finally:
            if pre is not None:
                pre.uninstall()
                pre = None
        if case.get('dual'):
            # the store log mixes both operations: look at ours
            stored[:] = [u_ for u_ in stored if u_ not in rival_uids]
            wrong = [m_['fields'].get(0x0120) for m_ in rival['rsps']
                     if m_['fields'].get(0x0120) != rival['mid']]
            if wrong:
                v('response-not-correlated concurrent-move',
                  'the other requestor (message id %d) got responses for %r' % (
                      rival['mid'], wrong[:4]))
            fin2 = [m_ for m_ in rival['rsps'] if m_['fields'].get(0x0900) not in (0xFF00, 0xFF01)]
            if len(fin2) != 1:
                v('not-exactly-one-final-response concurrent-move',
                  'the other requestor got %d final responses and %d responses in all' % (
                      len(fin2), len(rival['rsps'])))
        if 'noassoc' in out:
            return {'harness_error': 'association not accepted %r' % (out['noassoc'],),
                    'violations': []}
        rsps = out['rsps']
        pend = [m for m in rsps if m['fields'].get(0x0900) in (0xFF00, 0xFF01)]
        final = [m for m in rsps if m['fields'].get(0x0900) not in (0xFF00, 0xFF01)]
        want = [str(d.SOPInstanceUID) for d in insts]
        if refused and n > 0:
            # fault configuration: the designated destination refuses the connection.  Nothing
            # can be performed, so nothing may be reported as performed, a conclusion (if any)
            # must not claim success, and the requesting user must not be left waiting: it
            # gets a final response, an A-ABORT or the end of the connection in bounded time.
            if stored or other_hits:
                v('stored-although-destination-refused', repr((stored, other_hits)))
            if pend:
                v('progress-reported-without-sub-operation dest=refused',
                  '%d pending responses' % len(pend))
            if len(final) > 1 or 'after_final' in out:
                v('not-exactly-one-final-response dest=refused', '%d final' % len(final))
            for m in final:
                if m['fields'].get(0x0900) == 0x0000 or m['fields'].get(0x1021) not in (
                        0, None, ''):
                    v('success-reported-although-destination-refused',
                      repr(sorted(m['fields'].items())))
            if not final and out.get('instead') == 'timeout':
                v('move-user-left-waiting dest=refused',
                  'no final response, no abort and no close within 200 s')
            live = [t for t in world.sim.tasks if t.role in ('dul', 'acceptor') and not t.done]
            if live:
                v('threads-left-running dest=refused', repr([t.name for t in live]))
            return _fin(world, viol, case, {'pending': len(pend), 'final': len(final),
                                            'instead': repr(out.get('instead'))[:60]})
        if stored != want:
            v('instances-not-stored-once-in-order n=%s' % ('0' if n == 0 else '>0'),
              'supplied %r\nstored at destination %r' % (want, stored))
        if other_hits:
            v('stored-at-wrong-destination', '')
        if unknown and dest_conns:
            v('association-requested-for-unknown-destination', '%d connections' % len(dest_conns))
        if len(final) != 1 or 'after_final' in out:
            v('not-exactly-one-final-response n=%s' % ('0' if n == 0 else '>0'),
              '%d final responses, after final: %r, instead: %r' % (
                  len(final), 'after_final' in out, out.get('instead')))
        if len(pend) != n:
            v('pending-response-count', '%d sub-operations, %d pending responses' % (n, len(pend)))
        f_true = w_true = 0
        for k, m in enumerate(pend, 1):
            f = m['fields']
            oc = case['outcomes'][k - 1]
            f_true += oc == 'failure'
            w_true += oc == 'warning'
            rem, comp, fail, warn = f.get(0x1020), f.get(0x1021), f.get(0x1022), f.get(0x1023)
            performed_ok = comp == k or (isinstance(comp, int) and isinstance(fail, int) and
                                         isinstance(warn, int) and comp + fail + warn == k)
            if rem != n - k or not performed_ok:
                v('progress-counters-wrong',
                  'after sub-operation %d of %d: remaining %r completed %r failed %r warning %r'
                  % (k, n, rem, comp, fail, warn))
                break
            if fail != f_true or warn != w_true:
                v('failed-or-warning-count-wrong',
                  'after sub-operation %d: failed %r (true %d) warning %r (true %d)' % (
                      k, fail, f_true, warn, w_true))
                break
            if m['pcid'] != pcid or f.get(0x0120) != case['mid']:
                v('response-not-correlated', repr((m['pcid'], f.get(0x0120))))
        for m in final:
            f = m['fields']
            if f.get(0x1020) not in (0, None, ''):
                v('final-response-remaining-not-zero', repr(f.get(0x1020)))
        if world.handler_errors and not slow_release:
            v('move-provider-crashed n=%s' % ('0' if n == 0 else '>0'),
              world.handler_errors[0][-500:])
        return _fin(world, viol, case, {'pending': len(pend), 'final': len(final)})
    finally:
        if pre is not None:
            pre.uninstall()
        world.close()
