"""C20 -- concurrent associations on one application entity are isolated.

N concurrent clients (2..8) against ONE server AE object, in half of the runs sharing ONE ClientAE
object, each with its own data, sizes, maximum length, context subset and operation mix; some
abort or are reset in mid-transfer; schedules uniform / round-robin-biased / starvation-biased,
with fine-grain (line-level) pre-emption inside the functions that touch shared state."""
import random

from .. import refcodec as rc, preempt
from ..world import SimWorld
from .c15 import enc

PROPERTY = 'C20'
LEVEL = 'exploration'
BUDGET = {'quick': 55, 'thorough': 900}
CHUNK = 2
EXHAUSTIVE = {'quick': False, 'thorough': False}
ADDR = ('srvhost', 11112)
CT = '1.2.840.10008.5.1.4.1.1.2'
MR = '1.2.840.10008.5.1.4.1.1.4'
FIND = '1.2.840.10008.5.1.4.1.2.1.1'
RULE = ('cases = N in 2..8 concurrent associations on one server AE (and, in half of the runs, one '
        'shared ClientAE object) x per-client (operation mix echo/store/find/c_find, data sizes, '
        'maximum length, SOP-class subset) x a seeded subset that aborts, raises or is reset in '
        'mid-transfer x schedule policy {uniform, round-robin-biased, starvation-biased} x '
        'fine-grain pre-emption on/off; oracle: every client\'s outcome equals what it would be '
        'alone; non-trivial = every case; distinct = distinct scheduler signatures'
        '; hot family (shared entity reconfigured in gated rounds, pre-emption in the configuration code); storage-commitment operations; 25 % with one more connection that never sends anything; warm family: burst of long associations right behind one that has just ended; dirstore family: 3-4 associations storing one instance UID into the directory-backed entity at once')
ASSUMPTIONS = ['the reference outcome of a client alone is computed by the harness from what the '
               'client sent (data echoes, statuses, match lists), not by a second run',
               'pre-emption granularity: source lines of the listed functions; not bytecodes']


def cases(tier, seed):
    rnd = random.Random('c20/%d' % seed)
    n = 110 if tier == 'quick' else 20000
    for i in range(n):
        yield dict(n=rnd.choice([2, 2, 3, 4, 6, 8]), shared=rnd.random() < 0.5,
                   policy=rnd.choice(['uniform', 'rr', 'starve']), fine=rnd.random() < 0.5,
                   disturb=rnd.choice([0, 0, 1, 2]), silent=rnd.random() < 0.25,
                   seed=seed * 100003 + i)


_base_cases = cases


def cases(tier, seed):      # noqa: F811
    # one shared requesting entity that is reconfigured (add_scu) several times while many short
    # associations are requested from it; pre-emption concentrated in the configuration code
    rnd = random.Random('c20h/%d' % seed)
    for i in range(60 if tier == 'quick' else 6000):
        yield dict(n=rnd.choice([3, 4, 6]), shared=True, policy='uniform', fine=True, hot=True,
                   disturb=0, seed=seed * 100069 + i)
    for i in range(24 if tier == 'quick' else 800):
        yield dict(hang=True, cap=rnd.choice([2048, 8192]), pause=rnd.choice([7.0, 12.0, 30.0]),
                   nres=rnd.choice([60, 120]), start=rnd.choice([0.5, 2.0, 20.0]),
                   seed=seed * 100207 + i)
    # a burst of associations right behind one that has just ended (whatever the entity keeps
    # from it - idle workers, cached objects - must not make the newcomers wait for each other):
    # all stay open for a while, longer than the time any of them is prepared to wait
    for i in range(30 if tier == 'quick' else 1500):
        yield dict(warm=True, n=rnd.choice([2, 3, 5]), gap=rnd.choice([0.2, 1.0, 3.0]),
                   hold=rnd.choice([12.0, 30.0]), seed=seed * 100237 + i)
    # three or four associations store instances with ONE instance UID into the entity's
    # directory at the same time, twice each (so names are taken already): each is answered
    # with its own data in its own file (C15's hot scenario, run here for the entity)
    for i in range(40 if tier == 'quick' else 2000):
        yield dict(dirstore=True, inner=dict(
            ts=rnd.choice(['ile', 'ele']), cmax=rnd.choice([1024, 16384]),
            smax=rnd.choice([1024, 16384]), recv='dir', source='ds',
            nclients=rnd.choice([3, 3, 4]), nstores=2, same_uid=True, outcome='success',
            size=rnd.choice([0, 10, 100]), fault=None, align=False, mixed_ts=True, hot=True,
            seed=seed * 100271 + i), seed=seed * 100271 + i)
    # (the bulk comes after so that a wall-clock budget cut never drops the family above)
    for c in _base_cases(tier, seed):
        yield c
    # the same family once more with instruction-level pre-emption - an EXPERIMENT, off unless
    # VERIF_SUBLINE=1: under CPython 3.12.1 instruction events together with real threads made
    # a worker process die abruptly in about one of ten runs of the family (seen once in an
    # eight-seed soak; not reproducible by seed), and a check must never fail for a reason that
    # is not in the code under test.  Last on purpose: CPython arms instruction events
    # interpreter-wide and for good, which slows every traced thread of that worker process.
    import os
    if os.environ.get('VERIF_SUBLINE') != '1':
        return
    for i in range(40 if tier == 'quick' else 3000):
        yield dict(n=rnd.choice([3, 4, 6]), shared=True, policy='uniform', fine=True, hot=True,
                   sub=True, disturb=0, seed=seed * 100153 + i)


def _hang_case(case):
    """One association of the entity cannot even be opened (its connect hangs) while another
    one, accepted meanwhile, transfers more than the kernels buffer to a reader that pauses for
    several seconds: the second must not notice the first."""
    from pynetdicom2 import applicationentity, sopclass
    import pydicom
    world = SimWorld('c20/hang/%s' % case['seed'], with_fs=True)
    sim = world.sim
    viol = []

    def v(rule, detail):
        viol.append({'sig': 'C20 %s' % rule, 'detail': '%s\ncase %r\nhandler errors %r' % (
            detail, case, world.handler_errors[:1])})
    try:
        world.net.capacity = case['cap']
        world.net.hang_addrs = {('deadhost', 104)}
        nres = case['nres']

        class Srv(applicationentity.AE):
            def on_receive_find(self, context, ds):
                return iter([(_row(k), 0xFF00) for k in range(nres)])

        def _row(k):
            d = pydicom.Dataset()
            d.PatientName = 'ROW%03d' % k
            d.PatientComments = 'c' * 300
            return d
        srv = world.make_ae(Srv, 'SRV', 11112, [rc.IMPLICIT_LE], 16384)
        srv.timeout = 600
        srv.add_scp(sopclass.qr_find_scp)
        srv.add_scu(sopclass.verification_scu)
        world.serve_ae(srv, ADDR)
        out = {}

        def dialer():
            try:
                with srv.request_association({'aet': 'DEAD', 'address': 'deadhost', 'port': 104}):
                    out['dialer'] = 'associated'
            except Exception as e:  # pylint: disable=broad-except
                out['dialer'] = repr(e)
        world.spawn(dialer, 'dialer', role='other')

        def client():
            sim.sleep(case['start'])
            cli = world.make_ae(applicationentity.ClientAE, 'CLI', [rc.IMPLICIT_LE], 16384)
            cli.timeout = 600
            cli.add_scu(sopclass.qr_find_scu)
            try:
                with cli.request_association({'aet': 'SRV', 'address': ADDR[0],
                                              'port': ADDR[1]}) as assoc:
                    q = pydicom.Dataset()
                    q.PatientName = 'Q'
                    it = iter(assoc.get_scu(FIND)(q, 3))
                    got = [next(it)]
                    # the reader pauses: its provider thread does not run for a while
                    sim.stall(assoc.dul._sim_task, case['pause'])
                    got += list(it)
                    out['got'] = [(str(d.PatientName) if d is not None else None, int(st))
                                  for d, st in got]
            except Exception as e:  # pylint: disable=broad-except
                out['exc'] = e
        world.spawn(client, 'client', role='user')
        world.run(tmax=900)
        world.drain(3.0)
        want = [('ROW%03d' % k, 0xFF00) for k in range(nres)] + [(None, 0)]
        if out.get('got') != want:
            v('association-disturbed-by-another-one-that-cannot-connect',
              'the reader paused %.0f s with %d bytes of buffering; it received %s of %d results; '
              'error %r; the other association: %r' % (
                  case['pause'], case['cap'], len(out.get('got') or []), len(want),
                  out.get('exc'), out.get('dialer')))
        return {'violations': viol, 'stats': dict(sim.stats, **{'fault.connect_hangs': 1}),
                'digest': sim.digest.hexdigest(), 'sched_sig': sim.sched_sig.hexdigest(),
                'steps': sim.steps, 'vsecs': sim.now - 1000.0, 'nontrivial': True,
                'sample': {'case': case}}
    finally:
        world.close()


def _warm_case(case):
    from pynetdicom2 import applicationentity, sopclass
    world = SimWorld('c20/warm/%s' % case['seed'], with_fs=True)
    sim = world.sim
    viol = []

    def v(rule, detail):
        viol.append({'sig': 'C20 %s' % rule, 'detail': '%s\ncase %r\nhandler errors %r' % (
            detail, case, world.handler_errors[:1])})
    try:
        srv = world.make_ae(applicationentity.AE, 'SRV', 11112, [rc.IMPLICIT_LE], 16384)
        srv.timeout = 600
        srv.add_scp(sopclass.verification_scp)
        world.serve_ae(srv, ADDR)
        out = {}

        def client(k, start, hold):
            sim.sleep(start)
            cli = world.make_ae(applicationentity.ClientAE, 'CLI%d' % k, [rc.IMPLICIT_LE], 16384)
            cli.timeout = 8
            cli.add_scu(sopclass.verification_scu)
            t0 = sim.now
            try:
                with cli.request_association({'aet': 'SRV', 'address': ADDR[0],
                                              'port': ADDR[1]}) as assoc:
                    out[k] = [int(assoc.get_scu(sopclass.VERIFICATION_SOP_CLASS)(1))]
                    out[('t', k)] = sim.now - t0
                    if hold:
                        sim.sleep(hold)
                        out[k].append(int(assoc.get_scu(sopclass.VERIFICATION_SOP_CLASS)(2)))
            except Exception as e:  # pylint: disable=broad-except
                out[k] = repr(e)
        world.spawn(lambda: client(0, 0.0, 0.0), 'client0')
        for k in range(1, case['n'] + 1):
            world.spawn(lambda k=k: client(k, 1.0 + case['gap'], case['hold']), 'client%d' % k)
        world.run(tmax=600)
        world.drain(3.0)
        for k in range(case['n'] + 1):
            want = [0] if k == 0 else [0, 0]
            if out.get(k) != want:
                v('undisturbed-client-failed exc=%s' % str(out.get(k)).split('(')[0][:30],
                  'client %d of a burst right behind an association that had just ended: %r '
                  '(the others: %r)' % (k, out.get(k), {j: out.get(j) for j in range(
                      case['n'] + 1) if j != k}))
                break
        return {'violations': viol, 'stats': dict(sim.stats),
                'digest': sim.digest.hexdigest(), 'sched_sig': sim.sched_sig.hexdigest(),
                'steps': sim.steps, 'vsecs': sim.now - 1000.0, 'nontrivial': True,
                'sample': {'case': case}}
    finally:
        world.close()


def run_case(case):
    if case.get('hang'):
        return _hang_case(case)
    if case.get('warm'):
        return _warm_case(case)
    if case.get('dirstore'):
        from . import c15
        r = c15.run_case(case['inner'])
        for v_ in r.get('violations', []):
            v_['sig'] = 'C20 directory-storage ' + v_['sig'].replace('C15 ', '')
        return r
    from pynetdicom2 import applicationentity, sopclass, exceptions
    import pynetdicom2
    import pydicom
    rnd = random.Random('c20r/%s' % case['seed'])
    world = SimWorld('c20/%s' % case['seed'], with_fs=True)
    sim = world.sim
    viol = []
    pre = None

    def v(rule, detail):
        viol.append({'sig': 'C20 %s' % rule, 'detail': '%s\ncase %r\nhandler errors %r' % (
            detail, case, world.handler_errors[:1])})
    try:
        if case['fine']:
            if case.get('hot'):
                # line-level and (less often) instruction-level pre-emption: a thread may lose
                # the processor between evaluating an expression and storing its result
                pre = preempt.Preempter(
                    sim, prob=0.5, opcode_prob=0.1 if case.get('sub') else 0.0,
                    park_prob=0.25, park_max=0.1,
                    funcs={'copy_context_def_list', 'update_context_def_list',
                           '_build_context_def_list', 'add_scu', '_new_msg_id'},
                    files=('applicationentity.py', '__init__.py'),
                    opcode_funcs={'copy_context_def_list', 'update_context_def_list',
                                  '_new_msg_id'})
            else:
                pre = preempt.Preempter(sim, prob=0.2)
            pre.install()
        stored = []        # (instance uid, data bytes) seen by the server handler
        queries = []
        ctx_seen = {}
        file_meta = {}
        TSL = [rc.IMPLICIT_LE, rc.EXPLICIT_LE, rc.EXPLICIT_BE]

        class Srv(applicationentity.AE):
            def on_receive_store(self, context, ds):
                if hasattr(ds, 'read'):
                    from .c07 import _read_meta
                    content = bytes(ds.data)
                    meta, off = _read_meta(content)
                    data = content[off:]
                    g = lambda t: meta.get(t, b'').rstrip(b'\0').decode('ascii', 'replace')
                    file_meta[data] = (g((2, 2)), g((2, 0x10)))
                else:
                    data = bytes(ds)
                stored.append(data)
                ctx_seen[data] = (str(context.sop_class), str(context.supported_ts))
                return 0

            def on_commitment_request(self, remote_ae, uids):
                uids = list(uids)
                sim.sleep(rnd.choice([0.0, 0.05, 0.4]))       # requests overlap in here
                return {'aet': 'RCV', 'address': 'rcvhost', 'port': 4100}, uids, None

            def on_receive_find(self, context, ds):
                tag = str(ds.PatientName)
                queries.append(tag)
                ctx_seen[tag] = (str(context.sop_class), str(context.supported_ts))
                out = []
                for k in range(int(str(ds.PatientID) or 0)):
                    d = pydicom.Dataset()
                    d.PatientName = '%s/%d' % (tag, k)
                    out.append((d, 0xFF00))
                return iter(out)

        def store_mem(asce, ctx, msg):
            from pynetdicom2 import dimsemessages
            st = asce.ae.on_receive_store(ctx, msg.data_set)
            rsp = dimsemessages.CStoreRSPMessage()
            rsp.message_id_being_responded_to = msg.message_id
            rsp.affected_sop_instance_uid = msg.affected_sop_instance_uid
            rsp.sop_class_uid = msg.sop_class_uid
            rsp.status = int(st)
            asce.send(rsp, ctx.id)
        store_mem.sop_classes = [CT, MR]

        def store_file(asce, ctx, msg):
            return sopclass.storage_scp(asce, ctx, msg)
        store_file.sop_classes = [CT, MR]
        store_file.store_in_file = True
        file_backed = rnd.random() < 0.5
        srv = world.make_ae(Srv, 'SRV', 11112, None, 16384)
        srv.timeout = 600
        srv.add_scp(sopclass.verification_scp).add_scp(store_file if file_backed else store_mem)
        srv.add_scp(sopclass.qr_find_scp)
        srv.add_scp(sopclass.StorageCommitment())
        world.serve_ae(srv, ADDR)
        reports = []

        def rcv_msg(peer, m):
            f = m['fields']
            if f.get(0x0100) == 0x0100:
                from pydicom import filereader
                import io
                d = filereader.read_dataset(io.BytesIO(m['data']), True, True)
                reports.append((str(d.TransactionUID),
                                sorted(str(i.ReferencedSOPInstanceUID)
                                       for i in getattr(d, 'ReferencedSOPSequence', []))))
                peer.send_message(m['pcid'], {0x0002: f.get(0x0002), 0x0100: 0x8100,
                                              0x0120: f.get(0x0110, 0), 0x0800: 0x0101,
                                              0x0900: 0, 0x1000: f.get(0x1000),
                                              0x1002: f.get(0x1002)})
        from .. import peers as _peers
        world.serve_peer(('rcvhost', 4100), lambda sock: _peers.ScriptedAcceptor(
            sim, sock, on_message=rcv_msg,
            accept=lambda ctxs: [(p, 0, rc.IMPLICIT_LE if rc.IMPLICIT_LE in t else t[0])
                                 for p, a, t in ctxs]))
        remote = {'aet': 'SRV', 'address': ADDR[0], 'port': ADDR[1]}
        shared = None
        if case['shared']:
            shared = world.make_ae(applicationentity.ClientAE, 'SHARED', [rc.IMPLICIT_LE], 4096)
            shared.timeout = 600
            shared.add_scu(sopclass.verification_scu).add_scu(sopclass.storage_scu, [CT, MR])
            shared.add_scu(sopclass.qr_find_scu)
            shared.add_scu(sopclass.storage_commitment_scu)
        n = case['n']
        disturbed = set(rnd.sample(range(n), min(case['disturb'], n - 1)))
        results = {}
        plans = {}
        for c in range(n):
            ops = [rnd.choice(['echo', 'store', 'store', 'find', 'c_find', 'commit']) for _ in
                   range(rnd.randint(2, 5))]
            plans[c] = dict(ops=ops, maxlen=rnd.choice([64, 256, 4096, 16384]),
                            ts=rc.IMPLICIT_LE if case['shared'] else rnd.choice(TSL),
                            order=rnd.choice([[CT, MR], [MR, CT], [MR], [CT]]),
                            size=rnd.choice([10, 200, 2000]),
                            how=rnd.choice(['abort', 'raise', 'rst']) if c in disturbed else None,
                            at=rnd.randrange(1, len(ops)))

        class Boom(Exception):
            pass

        def client(c):
            plan = plans[c]
            res = results[c] = dict(sent=[], status=[], finds=[], msgids=[], exc=None,
                                    neg=None, done=False, t0=sim.now)
            try:
                if shared is not None:
                    ae = shared
                else:
                    ae = world.make_ae(applicationentity.ClientAE, 'CLI%d' % c,
                                       [plan['ts']], plan['maxlen'])
                    ae.timeout = 600
                    # own subset and order of classes: context ids mean different things in
                    # different associations
                    if c % 2:
                        ae.add_scu(sopclass.storage_scu, plan['order'])
                        ae.add_scu(sopclass.verification_scu)
                        ae.add_scu(sopclass.qr_find_scu)
                    else:
                        ae.add_scu(sopclass.qr_find_scu)
                        ae.add_scu(sopclass.verification_scu)
                        ae.add_scu(sopclass.storage_scu, plan['order'])
                    ae.add_scu(sopclass.storage_commitment_scu)
                if shared is not None:
                    # a few short associations first, so that requests on the shared entity
                    # keep coming while it is being reconfigured
                    for r_ in range(rnd.randint(1, 3) if not case.get('hot') else 8):
                        if case.get('hot'):
                            # start together with the reconfiguration of this round
                            sim.wait(lambda: gate['n'] > r_, 60.0, 'gate')
                        # whatever add_scu() calls have RETURNED by now must be proposed
                        need = cfg.get('done', 0) if case.get('hot') else 0
                        with ae.request_association(remote) as a0:
                            have = set(str(x.sop_class) for x in a0.context_def_list.values())
                            lacking = ['1.2.826.0.1.20.%d.%d' % (g, j) for j in range(need)
                                       for g in ((78, 79) if case.get('sub') else (78,))
                                       if '1.2.826.0.1.20.%d.%d' % (g, j) not in have]
                            if lacking:
                                res.setdefault('stale', []).append((r_, need, lacking))
                            sim.sleep(rnd.choice([0.0, 0.02, 0.1]))
                with ae.request_association(remote) as assoc:
                    res['neg'] = assoc.max_pdu_length
                    res['want_neg'] = min(ae.max_pdu_length, 16384)
                    for k, op in enumerate(plan['ops']):
                        if plan['how'] and k == plan['at']:
                            if plan['how'] == 'abort':
                                assoc.abort(3)
                                res['ended'] = 'abort'
                                return
                            if plan['how'] == 'raise':
                                raise Boom('client %d fails' % c)
                            if plan['how'] == 'rst':
                                assoc.dul.dul_socket.reset()
                                sim.bump('fault.rst')
                        mid = pynetdicom2._new_msg_id()
                        res['msgids'].append(mid)
                        if op == 'echo':
                            res['status'].append(('echo', int(assoc.get_scu(rc.VERIFICATION)(mid))))
                        elif op == 'store':
                            ds = pydicom.Dataset()
                            ds.SOPClassUID = rnd.choice([CT, MR] if shared is not None
                                                        else plan['order'])
                            ds.SOPInstanceUID = '1.2.826.0.1.20.%d.%d' % (c, k)
                            ds.PatientName = 'C%d-%d' % (c, k)
                            ds.ImageComments = chr(65 + c % 26) * plan['size']
                            res['sent'].append(enc(ds, plan['ts']))
                            res.setdefault('sent_ctx', {})[enc(ds, plan['ts'])] = (
                                str(ds.SOPClassUID), plan['ts'])
                            res['status'].append(('store', int(assoc.get_scu(ds.SOPClassUID)(ds, mid))))
                        elif op == 'commit':
                            tuid = '1.2.826.0.1.20.99.%d.%d' % (c, k)
                            uids = [(CT, '1.2.826.0.1.20.98.%d.%d.%d' % (c, k, j))
                                    for j in range(rnd.randint(1, 3))]
                            st = assoc.get_scu('1.2.840.10008.1.20.1')(tuid, uids, mid)
                            res['status'].append(('commit', int(st)))
                            res.setdefault('commits', []).append((tuid, sorted(u for _, u in uids)))
                        elif op == 'find':
                            q = pydicom.Dataset()
                            q.PatientName = 'QC%d-%d' % (c, k)
                            q.PatientID = str(rnd.randint(0, 4))
                            got = [(str(d.PatientName) if d is not None else None, int(st))
                                   for d, st in assoc.get_scu(FIND)(q, mid)]
                            res['finds'].append((str(q.PatientName), int(q.PatientID), got))
                            res.setdefault('sent_ctx', {})[str(q.PatientName)] = (FIND, plan['ts'])
                        else:
                            q = pydicom.Dataset()
                            q.PatientName = 'WC%d-%d' % (c, k)
                            q.PatientID = str(rnd.randint(0, 3))
                            got = [(str(d.PatientName) if d is not None else None, int(st))
                                   for d, st in pynetdicom2.c_find(remote, 'W%d' % c, q)]
                            res['finds'].append((str(q.PatientName), int(q.PatientID), got))
                res['done'] = True
            except Exception as e:  # pylint: disable=broad-except
                import traceback
                res['exc'] = e
                res['tb'] = traceback.format_exc()
            finally:
                res['took'] = sim.now - res['t0']
        if case.get('silent'):
            # one more connection to the server that never sends anything (a port scanner, a
            # peer that hangs): it is nobody's business but its own
            def silent_peer():
                sk = world.net.socket()
                try:
                    sk.connect(ADDR)
                except OSError:
                    return
                sim.wait(lambda: False, 3000.0, 'peer-idle')
            world.spawn(silent_peer, 'silent', role='peer')
            sim.run_for(0.2)
        for c in range(n):
            world.spawn(lambda c=c: client(c), 'client%d' % c)
        cfg = {}
        gate = {'n': 0}
        if shared is not None:
            # the shared entity is reconfigured while its associations are being requested; an
            # association requested after add_scu() has returned must propose the new classes
            def configurator():
                sim.sleep(rnd.choice([0.0, 0.01, 0.03, 0.05, 0.1, 0.2, 0.4]))

                def extra(asce, ctx, *a):
                    return None
                extra.sop_classes = ['1.2.826.0.1.20.77.1', '1.2.826.0.1.20.77.2']
                shared.add_scu(extra)
                if case.get('hot'):
                    sim.sleep(0.3)
                    for j in range(8):
                        # open the gate: every client requests its next association now, while
                        # this thread is adding a service - all runnable at the same instant
                        gate['n'] = j + 1

                        def more(asce, ctx, *a):
                            return None
                        more.sop_classes = ['1.2.826.0.1.20.78.%d' % j]
                        shared.add_scu(more)
                        if case.get('sub'):
                            # two reconfigurations back to back: the second one starts while
                            # whatever the first one invalidated is being rebuilt
                            def more2(asce, ctx, *a):
                                return None
                            more2.sop_classes = ['1.2.826.0.1.20.79.%d' % j]
                            shared.add_scu(more2)
                        cfg['done'] = j + 1
                        sim.sleep(0.5)
                cfg['configured'] = True
                try:
                    with shared.request_association(remote) as assoc:
                        cfg['proposed'] = sorted(str(x.sop_class)
                                                 for x in assoc.context_def_list.values())
                except Exception as e:  # pylint: disable=broad-except
                    cfg['exc'] = e
            world.spawn(configurator, 'configurator')
        if case['policy'] != 'uniform':
            orig_choose = sim.choose
            state = {'last': -1}

            def choose(stream, nn, tag=''):
                if stream == 'schedule' and tag == 'sched' and sim.rng('bias').random() < 0.7:
                    ready = sim._ready_tasks()
                    if ready:
                        if case['policy'] == 'rr':
                            idxs = sorted(range(len(ready)), key=lambda i: ready[i].steps)
                            i = idxs[0]
                        else:       # starve the lowest-numbered tasks: prefer the highest index
                            i = len(ready) - 1
                        sim.trace.append(i)
                        return i
                return orig_choose(stream, nn, tag)
            sim.choose = choose
        world.run(tmax=4000)
        world.drain(3.0)
        if pre is not None:
            pre.uninstall()
            pre = None
        all_sent = []
        for c in range(n):
            res = results.get(c)
            plan = plans[c]
            if res is None:
                v('client-never-ran', 'client %d' % c)
                continue
            how = plan['how']
            if how is None:
                if res['exc'] is not None or not res['done']:
                    v('undisturbed-client-failed exc=%s' % type(res['exc']).__name__,
                      'client %d: %s' % (c, res.get('tb')))
                    continue
            else:
                if how == 'raise' and not (res['exc'] is not None and
                                           type(res['exc']).__name__ == 'Boom'):
                    v('user-exception-replaced', 'client %d raised Boom, saw %r' % (c, res['exc']))
            if res['neg'] is not None and res['neg'] != res.get('want_neg'):
                v('negotiated-maximum-not-per-association',
                  'client %d negotiated %r, alone it would be %r' % (c, res['neg'],
                                                                      res.get('want_neg')))
            for kind, st in res['status']:
                if st != 0:
                    v('status-differs-from-alone', 'client %d %s status %04x' % (c, kind, st))
            for tag, k, got in res['finds']:
                want = [('%s/%d' % (tag, j), 0xFF00) for j in range(k)] + [(None, 0)]
                if got != want:
                    v('find-results-differ-from-alone', 'client %d query %s: want %r got %r' % (
                        c, tag, want, got))
            for key, want_ctx in res.get('sent_ctx', {}).items():
                if key in file_meta and file_meta[key] != want_ctx:
                    v('stored-file-meta-of-another-association',
                      'client %d sent (class, syntax) %r, file meta says %r' % (
                          c, want_ctx, file_meta[key]))
                    break
                if key in ctx_seen and ctx_seen[key] != want_ctx:
                    v('request-served-with-another-associations-context',
                      'client %d negotiated %r, the handler was given %r' % (c, want_ctx,
                                                                            ctx_seen[key]))
                    break
            if len(set(res['msgids'])) != len(res['msgids']):
                v('message-ids-not-unique-within-thread', 'client %d ids %r' % (c, res['msgids']))
            # stores acknowledged by this client must all have reached the handler intact
            acked = [k for k, s in res['status'] if k == 'store']
            all_sent += res['sent'][:len(acked)]
            if how is None:
                for b in res['sent']:
                    if b not in stored:
                        v('stored-data-differs-from-sent', 'client %d: a %d-byte data set never '
                          'reached the handler intact' % (c, len(b)))
                        break
        for c in results:
            for tuid, insts in results[c].get('commits', []):
                mine = [r for r in reports if r[0] == tuid]
                if plans[c]['how'] is None and (len(mine) != 1 or mine[0][1] != insts):
                    v('commitment-report-mixed-up',
                      'client %d asked for transaction %s with %r; reports under that uid: %r; '
                      'all reports %r' % (c, tuid, insts, mine, reports[:6]))
                    break
        if cfg.get('configured'):
            if 'proposed' in cfg:
                miss = [u for u in ['1.2.826.0.1.20.77.1', '1.2.826.0.1.20.77.2'] +
                        ['1.2.826.0.1.20.%d.%d' % (g, j) for j in range(cfg.get('done', 0))
                         for g in ((78, 79) if case.get('sub') else (78,))]
                        if u not in cfg['proposed']]
                if miss:
                    v('association-after-reconfiguration-misses-classes',
                      'requested after add_scu() returned, proposes %d classes, missing %r' % (
                          len(cfg['proposed']), miss))
            elif 'exc' in cfg:
                v('association-after-reconfiguration-failed', repr(cfg['exc']))
        if case.get('silent'):
            slow = [(c, round(results[c].get('took', -1), 1)) for c in sorted(results)
                    if results[c].get('took', 0) > 120.0 or 'took' not in results[c]]
            if slow:
                v('associations-held-up-by-a-silent-connection',
                  'clients (number, virtual seconds taken) %r; a connection that never sent '
                  'anything was open meanwhile' % (slow,))
        for c in sorted(results):
            if results[c].get('stale'):
                v('association-proposal-misses-class-configured-earlier',
                  'client %d: (round, add_scu calls returned, missing) %r' % (
                      c, results[c]['stale'][:3]))
                break
        extra = [b for b in stored if not any(b in results[c]['sent'] for c in results)]
        if extra:
            v('handler-saw-data-nobody-sent', '%d data sets' % len(extra))
        if len(stored) != len(set(stored)):
            v('store-handled-twice', '')
        dead = [x for x in sim.tasks if x.role == 'dul' and x.exc is not None]
        if dead:
            v('provider-died exc=%s' % type(dead[0].exc).__name__, dead[0].tb)
        seen, uniq = set(), []
        for x in viol:
            if x['sig'] not in seen:
                seen.add(x['sig'])
                uniq.append(x)
        return {'violations': uniq, 'stats': dict(sim.stats), 'digest': sim.digest.hexdigest(),
                'sched_sig': sim.sched_sig.hexdigest(), 'steps': sim.steps,
                'vsecs': sim.now - 1000.0, 'nontrivial': True,
                'sample': {'case': case, 'clients': {c: plans[c]['ops'] for c in plans}}}
    finally:
        if pre is not None:
            pre.uninstall()
        world.close()
