"""C03 -- PDU framing is independent of TCP segmentation (fault_enumeration, differential)."""
import random

from .. import convo

PROPERTY = 'C03'
LEVEL = 'fault_enumeration'
BUDGET = {'quick': 50, 'thorough': 900}
CHUNK = 24
EXHAUSTIVE = {'quick': False, 'thorough': False}
RULE = ('cases = conversation x turn x cut set (every single cut offset; every pair of offsets in '
        'thorough for the shortest turns, seeded pairs otherwise; dribble; all-at-once; seeded '
        'k-cuts with gaps) x first-segment-prebuffered x short-reads; each compared with the '
        'one-PDU-per-segment delivery of the same conversation; a case is non-trivial when at '
        'least one segment boundary falls strictly inside a PDU or one segment carries more than '
        'one PDU; distinct = distinct scheduler signatures (SHA-1 of the (role, seam) sequence)'
        "; plus conversations with an unexpected PDU followed by the peer's A-ABORT in one turn and a turn of exactly the provider's receive size; compared per channel incl. progress after every turn; corpus includes unknown/undecodable PDUs with further PDUs behind them")
ASSUMPTIONS = ['TCP model: reliable ordered byte stream; loss/duplication/reordering not injected',
               'atomicity between seams (see DESIGN 10)',
               'local user is a deterministic function of the indications it receives']

_CORPUS = None
_BASE = {}


def _corpus():
    global _CORPUS
    if _CORPUS is None:
        _CORPUS = convo.corpus()
    return _CORPUS


def _turns(c):
    return [b''.join(s[1]) for s in c['steps'] if s[0] in ('peer', 'peer+fin')]


def _pdu_bounds(c, turn):
    pd = [s[1] for s in c['steps'] if s[0] in ('peer', 'peer+fin')][turn]
    out, p = [], 0
    for x in pd:
        p += len(x)
        out.append(p)
    return out


def cases(tier, seed):
    corp = _corpus()
    rnd = random.Random('c03/%d' % seed)
    names = sorted(n_ for n_ in corp if not corp[n_].get('sparse'))   # (long turns: C13 only)
    # 1. every single cut of every turn (both tiers)
    for name in names:
        for t, data in enumerate(_turns(corp[name])):
            n = len(data)
            for c in range(1, n):
                yield dict(convo=name, turn=t, cuts=[c], gaps=[rnd.choice([0, 0, 0.01, 0.06])],
                           pre=(c % 3 == 0 and t == 0), short=(c % 5 == 0), seed=seed)
            # dribble and everything at once
            yield dict(convo=name, turn=t, cuts=list(range(1, n)), gaps=[0.0], pre=False,
                       short=False, seed=seed)
            yield dict(convo=name, turn=t, cuts=list(range(1, n)), gaps=[0.0, 0.06], pre=(t == 0),
                       short=False, seed=seed)
            yield dict(convo=name, turn=t, cuts=[], gaps=[0.0], pre=False, short=False, seed=seed)
            yield dict(convo=name, turn=t, cuts=[], gaps=[0.0], pre=(t == 0), short=True, seed=seed)
    # 2. pairs of cuts
    for name in names:
        for t, data in enumerate(_turns(corp[name])):
            n = len(data)
            if tier == 'thorough' and n <= 260:
                for a in range(1, n):
                    for b in range(a + 1, n):
                        yield dict(convo=name, turn=t, cuts=[a, b], gaps=[0.0, 0.06][(a + b) % 2:],
                                   pre=False, short=False, seed=seed)
            else:
                k = 60 if tier == 'quick' else 1500
                for _ in range(k):
                    a, b = sorted(rnd.sample(range(1, n), 2)) if n > 2 else (1, 1)
                    yield dict(convo=name, turn=t, cuts=[a, b],
                               gaps=[rnd.choice([0, 0.01, 0.06, 0.2])], pre=rnd.random() < 0.2,
                               short=rnd.random() < 0.3, seed=seed)
    # 3. seeded k-cuts, all turns at once
    k = 400 if tier == 'quick' else 20000
    for i in range(k):
        name = rnd.choice(names)
        turns = _turns(corp[name])
        t = rnd.randrange(len(turns))
        n = len(turns[t])
        kk = rnd.randint(1, min(8, max(1, n - 1)))
        cuts = sorted(rnd.sample(range(1, n), min(kk, n - 1))) if n > 1 else []
        yield dict(convo=name, turn=t, cuts=cuts,
                   gaps=[rnd.choice([0, 0, 0.01, 0.06, 0.2]) for _ in range(3)],
                   pre=rnd.random() < 0.3, short=rnd.random() < 0.5, seed=seed * 100003 + i,
                   allturns=rnd.random() < 0.5)


def _baseline(name):
    b = _BASE.get(name)
    if b is None:
        b = convo.play(_corpus()[name], {}, 'c03-base')
        _BASE[name] = b
    return b


def run_case(case):
    corp = _corpus()
    c = corp[case['convo']]
    base = _baseline(case['convo'])
    plan = {case['turn']: (case['cuts'], case['gaps'])}
    if case.get('allturns'):
        rnd = random.Random('c03at/%s' % case['seed'])
        for t, data in enumerate(_turns(c)):
            if t != case['turn'] and len(data) > 1:
                kk = rnd.randint(0, 3)
                plan[t] = (sorted(rnd.sample(range(1, len(data)), min(kk, len(data) - 1))),
                           [rnd.choice([0, 0.06])])
    obs = convo.play(c, plan, 'c03/%s' % case['seed'], prebuffer_first=case.get('pre', False),
                     short_reads=case.get('short', False))
    viol = []
    bounds = set(_pdu_bounds(c, case['turn']))
    cuts = case['cuts']
    inside = [x for x in cuts if x not in bounds]
    coalesced = len(bounds - set(cuts)) > 1 or (len(bounds) > 1 and not cuts)
    where = 'split' if inside else ('coalesced' if coalesced else 'aligned')
    # 'progress': after every turn of the peer (completely delivered, everything quiet) the same
    # number of indications and of answers exists as with one PDU per segment - a delivery must
    # not leave received PDUs waiting for bytes that are not part of them
    for ch in ('indications', 'wire', 'final', 'loop_exc', 'wire_rem', 'progress'):
        if obs[ch] != base[ch]:
            kinds_b = base.get('ind_kinds') if ch == 'indications' else base.get('wire_kinds')
            kinds_o = obs.get('ind_kinds') if ch == 'indications' else obs.get('wire_kinds')
            if ch in ('final', 'loop_exc', 'wire_rem', 'progress'):
                kinds_b, kinds_o = base[ch], obs[ch]
            viol.append({'sig': 'C03 differs-from-one-pdu-per-segment channel=%s convo=%s delivery=%s'
                                % (ch, case['convo'], where),
                         'detail': 'baseline %s: %r\nobserved %s: %r\ncase: %r\nloop traceback: %s'
                                   % (ch, kinds_b, ch, kinds_o, case, obs.get('loop_tb'))})
            break
    if not obs['settled'] and base['settled']:
        viol.append({'sig': 'C03 never-quiescent convo=%s delivery=%s' % (case['convo'], where),
                     'detail': 'blocked: %r case: %r' % (obs['blocked'], case)})
    if obs.get('user_exc'):
        return {'harness_error': 'reactive user died: %s' % obs['user_exc'], 'violations': []}
    return {'violations': viol, 'stats': obs['stats'], 'digest': obs['digest'],
            'sched_sig': obs['sched_sig'], 'steps': obs['steps'], 'vsecs': obs['vsecs'],
            'nontrivial': bool(inside) or coalesced,
            'sample': {'case': case, 'indications': obs['ind_kinds'], 'wire': obs['wire_kinds'],
                       'final': repr(obs['final'])},
            'sets': {'conversations': [case['convo']]}}


def shrink(case):
    cuts = case['cuts']
    if case.get('allturns'):
        yield dict(case, allturns=False)
    if case.get('pre'):
        yield dict(case, pre=False)
    if case.get('short'):
        yield dict(case, short=False)
    if any(case.get('gaps', [])):
        yield dict(case, gaps=[0.0])
    for i in range(len(cuts)):
        yield dict(case, cuts=cuts[:i] + cuts[i + 1:])
