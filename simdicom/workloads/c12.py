"""C12 -- no byte sequence from the peer can crash or hang the provider (exploration).

For each of Sta2, Sta3, Sta5, Sta6, Sta7, Sta13: a structure-aware mutant of a valid PDU (or seeded
random bytes) delivered under a random segmentation, then FIN / RST / silence."""
import random

from .. import refcodec as rc, refmodel as rm, prims, mutate
from . import c05

PROPERTY = 'C12'
LEVEL = 'exploration'
BUDGET = {'quick': 55, 'thorough': 1200}
CHUNK = 16
EXHAUSTIVE = {'quick': False, 'thorough': False}
RULE = ('cases = protocol state (6, reached by a canonical prefix on the real loop) x base PDU x '
        'mutation operator (DESIGN App. C; every operator instance in thorough, a seeded sample in '
        'quick) + seeded random byte strings and bit flips, x ending {FIN, RST, silence}, under a '
        'seeded segmentation; non-trivial = the stream is not a valid PDU sequence under R-codec '
        '(unrecognised, malformed, DIMSE-level garbage or incomplete); distinct = distinct '
        '(state, base, operator, ending)'
        '; states incl. the release-collision states Sta9-Sta12; floods with a non-consuming user; FIN right behind the last byte; peer-announced maximum 1..6 followed by a local send (real association layer); reactions judged under FIN right behind the last byte; behind family: valid PDUs + invalid PDU in one segment + FIN; FIN at the moment of ARTIM expiry; deaf: a peer that sends PDUs to be answered and never reads, on a connection with a time-out; park: ARTIM runs out on a slow provider thread (line-level pre-emption with parking inside the provider loop)')
ASSUMPTIONS = ['two-branch reaction oracle: a PDU that is malformed under a strict reading may be '
               'treated as invalid (Evt19 row) or leniently as its own type; valid PDUs and '
               'DIMSE-level garbage are only required not to crash/hang and to end orderly',
               'silence: termination is only required where ARTIM is armed (Sta2, Sta13)']

STATES = {
    'Sta2': ('acceptor', []),
    'Sta3': ('acceptor', ['p:rq']),
    'Sta5': ('requestor', ['u:assoc']),
    'Sta6a': ('acceptor', ['p:rq', 'u:ac']),
    'Sta6r': ('requestor', ['u:assoc', 'p:ac']),
    'Sta7': ('requestor', ['u:assoc', 'p:ac', 'u:relrq']),
    'Sta8': ('acceptor', ['p:rq', 'u:ac', 'p:relrq']),
    # release collision (both sides asked for release at once): four more "releasing" states
    'Sta9': ('requestor', ['u:assoc', 'p:ac', 'u:relrq', 'p:relrq']),
    'Sta10': ('acceptor', ['p:rq', 'u:ac', 'u:relrq', 'p:relrq']),
    'Sta11': ('requestor', ['u:assoc', 'p:ac', 'u:relrq', 'p:relrq', 'u:relrp']),
    'Sta12': ('acceptor', ['p:rq', 'u:ac', 'u:relrq', 'p:relrq', 'p:relrp']),
    'Sta13': ('acceptor', ['p:rq', 'u:ac', 'p:relrq', 'u:relrp']),
    'Sta13b': ('acceptor', ['p:rq', 'u:ac', 'u:abort']),
}
BASES_FOR = {
    'Sta2': ['rq', 'echo', 'abort', 'ac'],
    'Sta3': ['rq', 'echo', 'relrq', 'abort'],
    'Sta5': ['ac', 'rj', 'rq', 'echo'],
    'Sta6a': ['echo', 'store', 'store-first', 'relrq', 'abort', 'rq', 'ac'],
    'Sta6r': ['echo', 'store', 'relrq', 'abort', 'rj'],
    'Sta7': ['echo', 'store-first', 'relrp', 'relrq', 'abort'],
    'Sta8': ['echo', 'relrq', 'abort'],
    'Sta9': ['echo', 'relrp', 'abort', 'rq'],
    'Sta10': ['echo', 'relrp', 'abort', 'rq'],
    'Sta11': ['echo', 'relrp', 'abort', 'rq'],
    'Sta12': ['echo', 'relrq', 'abort', 'rq'],
    'Sta13': ['rq', 'echo', 'abort', 'relrp'],
    'Sta13b': ['rq', 'echo', 'abort'],
}
ENDINGS = ['fin', 'rst', 'silence']
OWN_EVENT = rm.PDU_EVENT


def _all_ops():
    out = []
    for st in sorted(STATES):
        for base in BASES_FOR[st]:
            for op in mutate.operators(mutate.BASES[base]):
                out.append((st, base, op))
    return out


def cases(tier, seed):
    rnd = random.Random('c12/%d' % seed)
    ops = _all_ops()
    if tier == 'quick':
        # one pass over every (state, base) with a seeded third of the operators + all garbage
        sel = [o for o in ops if o[2][0] == 'cmd_garbage' or rnd.random() < 0.22]
    else:
        sel = ops
    for i, (st, base, op) in enumerate(sel):
        ends = ENDINGS if tier == 'thorough' else [ENDINGS[(i + seed) % 3]]
        for e in ends:
            yield dict(state=st, base=base, op=list(op), ending=e, seed=seed * 7919 + i)
            if e == 'fin' or op[0] == 'cmd_garbage':
                # the peer closes right behind its last byte: no time to answer in between
                yield dict(state=st, base=base, op=list(op), ending='fin', fin_now=True,
                           seed=seed * 7919 + i)
    # a peer that pipelines hundreds of valid requests and then garbage, while the local user is
    # not consuming indications (it may be busy, or already on its way out)
    for i, st in enumerate(['Sta6a', 'Sta6r', 'Sta7', 'Sta8']):
        for nmsg in (70, 200):
            for e in ENDINGS:
                yield dict(state=st, base='echo', op=['flood', nmsg], ending=e,
                           seed=seed * 7 + i)
    # park: a slow provider thread (line-level pre-emption with parking of up to 0.2 virtual
    # seconds inside the loop of the provider) while ARTIM runs out on a peer that has sent
    # something unrecognisable and then keeps quiet: the moment of expiry falls anywhere
    # between two lines of the loop
    for st in ('Sta2', 'Sta13', 'Sta13b', 'Sta6a', 'Sta5'):
        for j in range(6 if tier == 'quick' else 60):
            yield dict(state=st, base='echo', op=['deaf', 1 + j % 2], ending='silence', park=True,
                       seed=seed * 17 + j)
    # deaf: the peer keeps sending PDUs that each have to be answered (A-ABORT) and never reads;
    # the connection has a time-out (set by the application on the socket, or process-wide), so
    # the write that finds the buffers full fails with socket.timeout in the middle of an action
    for st in sorted(STATES):
        for j, (cap, tmo) in enumerate([(25, 2.0), (12, 0.5), (64, 5.0)]):
            yield dict(state=st, base='echo', op=['deaf', 8 + 4 * j], ending=ENDINGS[(j + seed) % 3],
                       deaf=[cap, tmo], seed=seed * 13 + j)
    # a syntactically valid A-ASSOCIATE-RQ / -AC whose Maximum Length value (1..6) cannot carry a
    # single payload byte, after which the LOCAL side has something to send
    for role in ('requestor', 'acceptor'):
        for val in (1, 2, 5, 6):
            for local in (16384, 0):
                yield dict(state='Sta6' + role[0], base='ac' if role == 'requestor' else 'rq',
                           op=['unusable-max', val, local], ending='fin', seed=seed * 31 + val)
    # several PDUs in ONE segment and the connection reset right behind them: the bytes are
    # readable, but the first write the provider attempts fails
    for st in sorted(STATES):
        for j in range(3 if tier == 'quick' else 40):
            yield dict(state=st, base=BASES_FOR[st][j % len(BASES_FOR[st])], op=['two'],
                       ending='rst', rst_now=True, seed=seed * 100109 + j)
    # an invalid PDU right behind valid ones in ONE segment, and the peer half-closes right
    # behind it: the invalid PDU has been received and must still be answered
    for st in sorted(STATES):
        for j in range(6 if tier == 'quick' else 80):
            yield dict(state=st, base=BASES_FOR[st][j % len(BASES_FOR[st])],
                       op=['behind', 1 + j % 3, ['unknown', 'zero', 'short'][j % 3]],
                       ending='fin', fin_now=True, one_segment=True, seed=seed * 100153 + j)
    # the peer closes at the very moment ARTIM runs out (in the provider's first look at the
    # connection after the expiry): whichever of the two is noticed first, the provider ends
    # in order
    for st in sorted(STATES):
        for j in range(3 if tier == 'quick' else 40):
            yield dict(state=st, base=BASES_FOR[st][j % len(BASES_FOR[st])],
                       op=['behind', j % 2, 'unknown'], ending='fin', fin_at_expiry=True,
                       seed=seed * 100183 + j)
            # ... and at the instant of the expiry itself, before the provider has looked
            yield dict(state=st, base=BASES_FOR[st][j % len(BASES_FOR[st])],
                       op=['behind', j % 2, 'unknown'], ending='fin', fin_at_expiry='exact',
                       seed=seed * 100183 + j)
    n = 600 if tier == 'quick' else 40000
    states = sorted(STATES)
    for i in range(n):
        st = rnd.choice(states)
        kind = rnd.choice(['random', 'flip', 'flip', 'two'])
        yield dict(state=st, base=rnd.choice(BASES_FOR[st]), op=[kind], ending=rnd.choice(ENDINGS),
                   seed=seed * 104729 + i)


def _stream(case):
    rnd = random.Random('c12s/%s' % case['seed'])
    base = mutate.BASES[case['base']]
    op = case['op']
    if op[0] == 'random':
        n = rnd.choice([1, 5, 6, 7, 12, 40, 200])
        b = bytes(rnd.randrange(256) for _ in range(n))
        if rnd.random() < 0.5 and n >= 6:
            # plausible header in front of random body
            b = bytes([rnd.choice([1, 2, 3, 4, 5, 6, 7])]) + b'\0' + \
                (n - 6).to_bytes(4, 'big') + b[6:]
        return b
    if op[0] == 'flood':
        return mutate.BASES['echo'] * op[1] + rc.enc_pdu(0x5A, b'junk')
    if op[0] == 'deaf':
        return rc.enc_pdu(0x5A, b'junk') * op[1]
    if op[0] == 'flip':
        b = base
        for _ in range(rnd.randint(1, 3)):
            b = mutate.apply(b, ('flip', rnd.randrange(len(b)), rnd.randrange(8)))
        return b
    if op[0] == 'behind':
        bad = {'unknown': rc.enc_pdu(0x5A, b'junk'), 'zero': rc.enc_pdu(0x00, b''),
               'short': rc.enc_pdu(0x07, b'\0\0')}[op[2]]
        return base * op[1] + bad
    if op[0] == 'two':
        ops = mutate.operators(base)
        return mutate.apply(base, rnd.choice(ops)) + mutate.BASES[rnd.choice(sorted(mutate.BASES))]
    return mutate.apply(base, tuple(op))


def _branches(model, framed):
    """All acceptable reference outcomes for a sequence of framed PDUs.
    -> list of (model, wire_kinds, user_kinds) or None if the reaction is not judged."""
    br = [(model.clone(), [], [])]
    for raw in framed:
        cls = mutate.classify(raw)
        opts = []
        # 'valid' PDUs are only required not to crash or hang here (their processing is C05's
        # subject, and a decoder stricter than R-codec, e.g. about text encodings inside opaque
        # fields, may legitimately refuse them): both rows are acceptable for them as well
        # 'undecodable' (no reading can decode it: fixed fields missing, items that do not fit
        # the declared length) is "a PDU that cannot be decoded": Evt19 row only, like an
        # unrecognised type
        opts.append('Evt19')
        if cls in ('malformed', 'valid') and raw[0] in OWN_EVENT:
            opts.append(OWN_EVENT[raw[0]])
        new = []
        for m, ew, eu in br:
            for evt in opts:
                m2 = m.clone()
                exp = {'wire': [], 'user': [], 'ev': evt}
                if not m2.sock_open:
                    new.append((m2, ew, eu))
                    continue
                if evt == 'Evt10':
                    eff = rm.effects(m2.state, evt, m2.requestor)
                    if eff is not None and eff['user'] == 'pdata':
                        if cls != 'valid':
                            return None
                        p = rc.parse_pdu(raw)
                        try:
                            probe = m2.clone()
                            for pdv in p['pdvs']:
                                if pdv[1] & ~3 or not len(pdv[2]):
                                    return None
                                msg = probe.reasm.feed(pdv)
                                if msg is not None or probe.reasm.cmd_done:
                                    flds = msg['fields'] if msg is not None else probe.reasm.fields
                                    if probe.reasm.problems or \
                                            flds.get(0x0100) not in rc.COMMAND_FIELDS:
                                        return None
                        except rc.Malformed:
                            return None
                try:
                    m2._fsm(evt, exp, raw, None)
                except rc.Malformed:
                    return None
                wk = [_wk(e) for e in exp['wire']]
                uk = [_uk(e) for e in exp['user']]
                new.append((m2, ew + wk, eu + uk))
        br = new
        if len(br) > 64:
            br = br[:64]
    return br


def _wk(e):
    if e[0] == 'raw':
        return rc.PDU_NAMES.get(e[1][0])
    if e[0] == 'kind':
        return e[1]
    return 'A-ABORT'


def _uk(e):
    if e[0] == 'pdu':
        return rc.PDU_NAMES.get(e[1][0])
    if e[0] == 'p-abort':
        return 'A-ABORT'
    return 'DIMSE'


def _unusable_max(case):
    """Real association layer (P2): the peer's announced maximum is 1..6."""
    from pynetdicom2 import applicationentity, sopclass, exceptions
    from ..world import SimWorld
    from .. import peers
    _, val, local = case['op']
    role = 'requestor' if case['state'].endswith('r') else 'acceptor'
    world = SimWorld('c12/um/%s/%s/%s' % (role, val, local))
    viol = []
    addr = ('peerhost', 104)

    def v(rule, detail):
        viol.append({'sig': 'C12 %s state=Sta6 peer-max=unusable role=%s' % (rule, role),
                     'detail': '%s\ncase %r\nhandler errors %r' % (detail, case,
                                                                   world.handler_errors[:1])})
    try:
        wire = []
        out = {}
        if role == 'requestor':
            def factory(sock):
                sock.peer.on_send = lambda s_, b: wire.append(b)
                return peers.ScriptedAcceptor(world.sim, sock, max_length=val)
            world.serve_peer(addr, factory)
            cli = world.make_ae(applicationentity.ClientAE, 'CLI', [rc.IMPLICIT_LE], local)
            cli.timeout = 30
            cli.add_scu(sopclass.verification_scu)

            def user():
                try:
                    with cli.request_association({'aet': 'SRV', 'address': addr[0],
                                                  'port': addr[1]}) as assoc:
                        out['st'] = int(assoc.get_scu(rc.VERIFICATION)(1))
                except exceptions.NetDICOMError as e:
                    out['exc'] = e
                except Exception as e:  # pylint: disable=broad-except
                    out['other'] = e
            ut = world.spawn(user, 'user')
        else:
            srv = world.make_ae(applicationentity.AE, 'SRV', 11112, [rc.IMPLICIT_LE], local)
            srv.timeout = 30
            srv.add_scp(sopclass.verification_scp)
            world.serve_ae(srv, addr)

            def script(peer):
                p = peer.associate()
                out['reply'] = p
                if peer.sock.peer is not None:
                    peer.sock.peer.on_send = lambda s_, b: wire.append(b)
                if not isinstance(p, dict) or p['kind'] != 'A-ASSOCIATE-AC':
                    return
                peer.send_message(1, {0x0002: rc.VERIFICATION, 0x0100: 0x0030, 0x0110: 1,
                                      0x0800: 0x0101}, max_length=16384)
                out['answer'] = peer.read_message(timeout=100.0)
                if not peer.eof and not peer.reset:
                    try:
                        peer.release()
                    except OSError:
                        pass
            pr = peers.ScriptedRequestor(world.sim, world.net, addr,
                                         ((1, rc.VERIFICATION, (rc.IMPLICIT_LE,)),),
                                         max_length=val, script=script)
            ut = world.spawn(pr.run, 'peer', role='user')
        world.run(tmax=600)
        world.drain(5.0)
        dead = [t for t in world.sim.tasks if t.role == 'dul' and t.exc is not None]
        if dead:
            v('loop-died exc=%s' % type(dead[0].exc).__name__, dead[0].tb or '')
        if 'other' in out:
            v('user-got-non-library-error exc=%s' % type(out['other']).__name__, repr(out['other']))
        if not ut.done:
            v('never-quiescent', 'user/peer task still waiting after 600 s')
        live = [t.name for t in world.sim.tasks if t.role in ('dul', 'acceptor') and not t.done]
        if live:
            v('threads-left-running', repr(live))
        open_socks = [s_ for s_ in world.net.sockets if not s_.closed]
        if open_socks:
            v('connection-left-open', '%d sockets' % len(open_socks))
        pdus, rem = rc.parse_stream(b''.join(wire))
        if rem or any(p['kind'] == 'MALFORMED' for p in pdus):
            v('emitted-malformed-pdu', repr([p['kind'] for p in pdus]))
        big = [p for p in pdus if p['kind'] == 'P-DATA-TF' and p['length'] > val]
        if big:
            v('emitted-pdu-beyond-announced-maximum', repr([p['length'] for p in big]))
        sim = world.sim
        return {'violations': viol, 'stats': dict(sim.stats, **{'probe.unusable_max': 1}),
                'digest': sim.digest.hexdigest(), 'steps': sim.steps, 'vsecs': sim.now - 1000.0,
                'nontrivial': True, 'sched_sig': 'um/%s/%s/%s' % (role, val, local),
                'sample': {'case': case, 'observed': {k: repr(x)[:80] for k, x in out.items()}}}
    finally:
        world.close()


def run_case(case):
    if case['op'][0] == 'unusable-max':
        return _unusable_max(case)
    role, prefix = STATES[case['state']]
    pre = None
    if case.get('park'):
        # (installed before the provider thread exists: a thread is traced from its start)
        from .. import preempt
        pre = preempt.Preempter(None, prob=0.4, park_prob=0.5, park_max=0.2,
                                funcs={'run', '_check_network', '_check_timer',
                                       '_check_outgoing_pdu', '_process_incoming',
                                       '_check_incoming_pdu', 'check', 'remaining'},
                                files=('dulprovider.py',))
        pre.install()
    try:
        drv = c05.Driver(role, 'c12/%s' % case['seed'])
    except BaseException:
        if pre is not None:
            pre.uninstall()
        raise
    if pre is not None:
        pre.sim = drv.rig.sim
    viol = []
    rig = drv.rig
    st_name = case['state'].rstrip('abr')
    res = {'violations': viol, 'stats': {}}

    def v(rule, detail):
        viol.append({'sig': 'C12 %s state=%s' % (rule, st_name),
                     'detail': '%s\ncase %r\nhistory %r\nloop traceback: %s' % (
                         detail, case, drv.history, rig.task.tb)})
    try:
        for ev in prefix:
            if drv.step(ev):
                return {'violations': [], 'stats': {}, 'skipped': 'prefix failed (C05 territory)'}
        indicated = (role == 'acceptor' and 'p:rq' in prefix) or role == 'requestor'
        told_before = any(getattr(i, 'pdu_type', None) in (3, 5, 6, 7) for i in rig.indications) \
            or 'u:abort' in prefix or 'u:relrp' in prefix
        stream = _stream(case)
        framed, rem = rc.split_stream(stream)
        classes = [mutate.classify(r) for r in framed]
        rnd = random.Random('c12d/%s' % case['seed'])
        if drv.pre_time('x') is not None:
            drv.step('t:expire')
            if not drv.model.sock_open:
                return {'violations': [], 'stats': {}, 'skipped': 'expired'}
        # deliver under a seeded segmentation
        k = rnd.choice([0, 0, 1, 2, 5]) if not (case.get('rst_now') or
                                                 case.get('one_segment')) else 0
        cuts = sorted(rnd.sample(range(1, len(stream)), min(k, len(stream) - 1))) \
            if len(stream) > 1 else []
        prev = 0
        deaf = case.get('deaf')
        if deaf and rig.prov_sock is not None:
            rig.wire_take()
            rig.prov_sock.tx.capacity = deaf[0]
            rig.prov_sock.settimeout(deaf[1])
            rig.sim.bump('fault.peer_deaf_and_socket_timeout')
        model0 = drv.model.clone()
        t_inj = rig.sim.now
        wire0 = len(rig.wire_bytes)
        for c in cuts + [len(stream)]:
            rig.peer_bytes(stream[prev:c])
            prev = c
            g = rnd.choice([0, 0, 0.01, 0.06])
            if g:
                rig.advance(g)
        drv.history.append('~bytes:%s' % stream[:24].hex())
        fin_now = bool(case.get('fin_now')) and not rig.sock_gone()
        if fin_now:
            rig.peer_fin()
            drv.history.append('~fin')
        rst_now = bool(case.get('rst_now')) and not rig.sock_gone()
        if rst_now:
            rig.peer_rst_behind()
            drv.history.append('~rst-behind')
            fin_now = True          # (no reaction oracle: the connection is gone while it reacts)
        settled = rig.settle()
        rig.wire_take()
        wire = rig.wire_bytes[wire0:]
        pdus, wrem = rc.parse_stream(wire)
        inds = rig.take_indications()
        ind_kinds = [c05._describe_user(i).split(':')[0] for i in inds]
        wire_kinds = [p['kind'] for p in pdus]
        nontrivial = bool(rem) or any(c != 'valid' for c in classes)
        if rig.loop_dead():
            v('loop-died exc=%s at=%s' % (type(rig.task.exc).__name__ if rig.task.exc else '-',
                                           c05._where(rig.task.tb)),
              'stream %s classes %r' % (stream.hex()[:200], classes))
            return _fin(res, drv, case, nontrivial)
        if not settled and not case.get('park'):
            # (a provider that is parked again and again is slow, not stuck)
            v('never-quiescent blocked=%s' % rig.task.kind, 'stream %s' % stream.hex()[:200])
        if deaf:
            wrem = b''      # (a write cut short by the time-out is no PDU of the library's making)
        if wrem or 'MALFORMED' in wire_kinds:
            v('emitted-malformed-pdu', 'wire %r rem %r' % (wire_kinds, wrem))
        # two-branch reaction oracle
        br = _branches(model0, framed) if not rst_now and case['op'][0] not in ('flood', 'deaf') \
            else None
        if br is not None and fin_now:
            # the peer has half-closed right behind its last byte (it still reads): every
            # complete PDU it sent before is reacted to first, then the closing is noticed
            br2 = []
            for m, ew, eu in br:
                if m.sock_open:
                    exp = {'wire': [], 'user': [], 'ev': 'Evt17'}
                    m._fsm('Evt17', exp, None, None)
                    m.sock_open = False
                    ew = ew + [_wk(e) for e in exp['wire']]
                    eu = eu + [_uk(e) for e in exp['user']]
                m.artim = rig.timer_running()       # (not compared in this variant)
                br2.append((m, ew, eu))
            br = br2
        judged = br is not None
        if judged:
            obs = (wire_kinds, ind_kinds, rig.state(), rig.sock_gone(), rig.timer_running())
            ok = False
            for m, ew, eu in br:
                if (ew, eu, m.state, not m.sock_open, m.artim) == obs:
                    ok = True
                    drv.model = m
                    break
            if not ok:
                first_bad = next((c for c in classes if c != 'valid'), 'valid')
                v('reaction class=%s base=%s%s' % (first_bad, case['base'],
                                                   ' then-fin' if fin_now else ''),
                  'observed wire %r user %r state %s sock_gone %s artim %s\nacceptable: %r\n'
                  'classes %r stream %s' % (wire_kinds, ind_kinds, rig.state(), rig.sock_gone(),
                                            rig.timer_running(),
                                            [(ew, eu, m.state, not m.sock_open, m.artim)
                                             for m, ew, eu in br][:6], classes,
                                            stream.hex()[:300]))
                return _fin(res, drv, case, nontrivial)
        # ending
        gone = rig.sock_gone()
        state_at_end = rig.state()
        armed = rig.timer_running()
        if not gone and case.get('fin_at_expiry') and armed:
            from .. import sched as _sched
            expiry = rig.provider.timer._start_time + c05.ARTIM
            task = rig.task

            def at_expiry():
                if case['fin_at_expiry'] == 'exact':
                    return rig.sim.now >= expiry - 1e-9 and not rig.sock_gone()
                return (rig.sim.now >= expiry and task.kind == 'select' and
                        task.deadline is not None and task.deadline - 0.05 >= expiry - 1e-9
                        and not rig.sock_gone())
            rig.sim.actors.append(_sched.Trigger('fin-at-expiry', at_expiry, lambda: (
                rig.peer_fin(), rig.sim.bump('fault.fin_at_artim_expiry'))))
        elif not gone:
            if case['ending'] == 'fin':
                rig.peer_fin()
            elif case['ending'] == 'rst' and not rst_now:
                rig.peer_rst()
        rig.settle()
        rig.advance(c05.ARTIM + 1.0)
        rig.settle()
        if case.get('park'):
            rig.advance(10.0)       # a slow thread gets the time it needs
            rig.settle()
        rig.wire_take()
        pdus2, wrem2 = rc.parse_stream(rig.wire_bytes[wire0:])
        if deaf:
            wrem2 = b''
        if wrem2 or any(p['kind'] == 'MALFORMED' for p in pdus2):
            v('emitted-malformed-pdu', 'wire %r' % [p['kind'] for p in pdus2])
        if rig.loop_dead():
            v('loop-died-at-end exc=%s at=%s' % (
                type(rig.task.exc).__name__ if rig.task.exc else '-', c05._where(rig.task.tb)),
              'ending %s' % case['ending'])
            return _fin(res, drv, case, nontrivial)
        must_end = case['ending'] in ('fin', 'rst') or gone or armed
        if must_end and (rig.state() != 'Sta1' or not rig.sock_gone()):
            v('not-idle-after-%s from=%s' % (case['ending'], state_at_end),
              'state %s sock_gone %s blocked %s' % (rig.state(), rig.sock_gone(), rig.task.kind))
        if must_end and rig.prov_sock is not None and not rig.prov_sock.closed:
            v('socket-not-closed', 'state %s' % rig.state())
        rig.take_indications()
        if must_end and indicated and not told_before:
            told = any(getattr(i, 'pdu_type', None) in (3, 5, 6, 7) for i in rig.indications)
            if not told:
                v('user-not-told', 'indications %r' % [c05._describe_user(i)
                                                       for i in rig.indications])
        res['stats'] = {'probe.reaction_judged': int(judged),
                        'probe.class_%s' % (classes[0] if classes else 'incomplete'): 1,
                        'fault.%s' % case['ending']: 1}
        return _fin(res, drv, case, nontrivial)
    finally:
        if pre is not None:
            pre.uninstall()
        drv.close()


def _fin(res, drv, case, nontrivial):
    sim = drv.rig.sim
    st = dict(sim.stats)
    st.update(res.get('stats', {}))
    res.update(digest=sim.digest.hexdigest(), steps=sim.steps, vsecs=sim.now - 1000.0, stats=st,
               nontrivial=nontrivial,
               sched_sig='%s/%s/%s/%s/%s' % (case['state'], case['base'], case['op'], case['ending'],
                                          case.get('fin_now', False)),
               sample={'case': case, 'history': list(drv.history), 'final': drv.rig.state()})
    return res
