"""C10 -- negotiated maximum PDU length honoured in both directions, including 0 (= unlimited).

Both roles of the real association layer against a scripted peer over the boundary grid of
(locally configured, peer-announced) maxima, with messages smaller than, equal to and several
times the fragment size going in both directions.  Besides the bound on every P-DATA-TF the
oracle has a liveness part: every message handed to send() is completely received by the peer,
and every message the peer sends within the limit the library announced is received by the
library, within bounded virtual time."""
import random

from .. import refcodec as rc, peers
from ..world import SimWorld

PROPERTY = 'C10'
LEVEL = 'exploration'
BUDGET = {'quick': 55, 'thorough': 900}
CHUNK = 4
EXHAUSTIVE = {'quick': True, 'thorough': True}
GRID = [0, 7, 8, 127, 128, 1024, 16384, 65536, 2 ** 31, 2 ** 32 - 1]
ADDR = ('peerhost', 104)
FIND = '1.2.840.10008.5.1.4.1.2.1.1'
RULE = ('cases = role {requestor, acceptor} x locally configured maximum x peer-announced maximum '
        'over {0, 7, 8, 127, 128, 1024, 16384, 65536, 2^31, 2^32-1} (all pairs) x seeded schedule; '
        'messages with data sets of sizes {< fragment, = fragment, 3 x fragment +- 1} in both '
        'directions; non-trivial = one of the two values is 0 or they differ; distinct = distinct '
        '(role, local, peer)'
        '; plus data sizes for which command set + data set land just below/at/above one PDU; reconf: the entity\'s configured maximum is changed while the association is open; hook: the accepting application gives the association its own maximum in on_association_request')
ASSUMPTIONS = ['the simulated recv(n) does not allocate n bytes (a 2^32-1 receive buffer is an '
               'OS-level concern outside the model)',
               'data sizes are capped at 6000 bytes: for huge limits all messages fit one fragment']


def cases(tier, seed):
    import random
    rnd = random.Random('c10/%d' % seed)
    reps = 5 if tier == 'quick' else 60
    for r in range(reps):
        for role in ('requestor', 'acceptor'):
            for local in GRID:
                for peer in GRID:
                    # reconf: the application changes the entity's configured maximum while the
                    # association is open - what was negotiated stays what it was
                    yield dict(role=role, local=local, peer=peer, seed=seed * 1009 + r,
                               reconf=rnd.choice([None, None, None, 0, 7, 65536, 2 ** 32 - 1]),
                               chatty=rnd.choice([0, 0, 0, 1, 2]) if role == 'requestor' else 0,
                               # hook: the accepting application sets this association's own
                               # maximum when the request is indicated to it (per-peer limit);
                               # the entity itself is configured with another value
                               hook=(rnd.choice([None, None, None, 0, 128, 65536, 2 ** 32 - 1])
                                     if role == 'acceptor' else None))


def _sizes(limit):
    frag = max(1, (limit - 6)) if limit else 4000
    frag = min(frag, 2000)
    return [max(8, frag // 2 * 2 - 2), max(8, frag + (frag % 2)),
            max(8, 3 * frag + 1 + (3 * frag + 1) % 2)]


def _near(limit, kind, seed):
    """Data-set sizes for which command set + data set together are just below, at and just
    above what one P-DATA-TF of the limit can carry behind one / two item headers."""
    if not limit or limit < 160 or limit > 6000:
        return []
    from pynetdicom2 import dimsemessages, dsutils
    msg = dimsemessages.CFindRQMessage() if kind == 'rq' else dimsemessages.CFindRSPMessage()
    msg.sop_class_uid = FIND
    if kind == 'rq':
        msg.message_id = 1
        msg.priority = 0
    else:
        msg.message_id_being_responded_to = 7
        msg.status = 0xFF00
    msg.data_set = b'xx'
    cl = len(dsutils.encode(msg.command_set, True, True))
    out = []
    for d in range(-14, 3, 2):
        n = limit - 6 - cl + d
        n -= n % 2
        if n >= 8 and n not in out:
            out.append(n)
    # a rotating half of them per case keeps the run short
    return [n for i, n in enumerate(out) if (i + seed) % 2 == 0]


def _ds_of(n):
    """pydicom Dataset whose implicit-VR-LE encoding has exactly n bytes (n even, >= 8)."""
    import pydicom
    ds = pydicom.Dataset()
    ds.PatientName = 'A' * max(0, n - 8)
    return ds


def run_case(case):
    if case['role'] == 'requestor':
        return _requestor(case)
    return _acceptor(case)


def _v(viol, rule, detail, case):
    viol.append({'sig': 'C10 %s role=%s' % (rule, case['role']),
                 'detail': '%s\ncase %r' % (detail, case)})


def _zero(x):
    return 'zero' if x == 0 else 'nonzero'


def _requestor(case):
    from pynetdicom2 import applicationentity, sopclass, dimsemessages
    local, pmax = case['local'], case['peer']
    world = SimWorld('c10/%s/%s/%s' % (case['seed'], local, pmax), with_fs=True)
    viol = []
    try:
        got_back = []

        def on_message(peer, m):
            # answer every request with a response carrying a data set, fragmented to the limit the
            # library announced (0 = unlimited -> one PDU)
            announced = peer.peer_max
            size = len(m['data'] or b'') or 8
            peer.send_message(m['pcid'], {0x0002: FIND, 0x0100: 0x8020,
                                          0x0120: m['fields'].get(0x0110, 0), 0x0800: 1,
                                          0x0900: 0xFF00}, b'Z' * size, max_length=announced)
        seen = {'n': 0}

        def on_pdu(peer, p_):
            # full-duplex traffic: the peer sends messages of its own - as large as the
            # library said it would take - while the library is in the middle of sending
            seen['n'] += 1
            if seen['n'] % case['chatty'] == 0 and seen['n'] <= 40:
                announced = peer.peer_max
                size = min(announced - 6, 4000) if announced else 4000
                peer.send_message(1, {0x0002: FIND, 0x0100: 0x8020, 0x0120: 0xFFFF, 0x0800: 1,
                                      0x0900: 0xFF00}, b'C' * max(8, size - size % 2),
                                  max_length=announced)
        world.serve_peer(ADDR, lambda sock: peers.ScriptedAcceptor(
            world.sim, sock, max_length=pmax, on_message=on_message,
            on_pdu=on_pdu if case.get('chatty') else None))
        ae = world.make_ae(applicationentity.ClientAE, 'CLI', [rc.IMPLICIT_LE], local)
        ae.timeout = 3600
        ae.add_scu(sopclass.qr_find_scu)
        limit = pmax if (pmax and (not local or pmax < local)) else local
        sizes = _sizes(limit) + _near(limit, 'rq', case['seed'])
        res = {}

        def user():
            with ae.request_association({'aet': 'SRV', 'address': ADDR[0], 'port': ADDR[1]}) as a:
                res['neg'] = a.max_pdu_length
                if case.get('reconf') is not None:
                    ae.max_pdu_length = case['reconf']
                for i, n in enumerate(sizes):
                    msg = dimsemessages.CFindRQMessage()
                    msg.message_id = i + 1
                    msg.sop_class_uid = FIND
                    msg.priority = 0
                    if (i + case['seed']) % 2:
                        # data set handed over as a file object positioned behind a header
                        # every other file source behaves like a raw stream (short reads)
                        d_ = 'raw' if (i + case['seed']) % 4 == 1 else 'src'
                        world.fs.short_read_prefix = '/raw/'
                        world.fs.put('/%s/q%d' % (d_, i), b'HDR!' + b'Q' * n)
                        fp = world.fs.open('/%s/q%d' % (d_, i), 'rb')
                        fp.seek(4)
                        msg.data_set = fp
                    else:
                        msg.data_set = b'Q' * n
                    a.send(msg, 1)
                    while True:
                        rsp, pcid = a.receive()
                        if rsp.message_id_being_responded_to == i + 1:
                            break           # (anything else is the peer's own traffic)
                    got_back.append(len(rsp.data_set or b''))
            res['done'] = True
        t = world.spawn(user, 'user')
        world.run(tmax=1200)
        world.drain(2.0)
        peer = world.peers[0] if world.peers else None
        pair = 'local=%s peer=%s' % (_zero(local), _zero(pmax))
        if peer is None or peer.rq is None:
            _v(viol, 'no-association-request-sent %s' % pair, 'tb %s' % t.tb, case)
        else:
            ann = [x[1] for x in peer.rq['user_info'] if x[0] == 'max_length']
            if len(ann) != 1:
                _v(viol, 'max-length-item-count', repr(ann), case)
            elif ann[0] != local:
                _v(viol, 'announced-not-configured %s' % pair, 'announced %r configured %r' % (
                    ann[0], local), case)
            for p in peer.pdata:
                if pmax and p['length'] > pmax:
                    _v(viol, 'pdata-longer-than-peer-maximum', 'length %d > %d' % (p['length'], pmax),
                       case)
                    break
            recv_sizes = [len(m['data'] or b'') for m in peer.messages]
            if recv_sizes != sizes:
                _v(viol, 'messages-not-delivered-to-peer %s' % pair,
                   'sent sizes %r, peer completely received %r; user tb %s' % (
                       sizes, recv_sizes, t.tb), case)
            elif got_back != sizes:
                _v(viol, 'messages-not-received-from-peer %s' % pair,
                   'peer sent %r within the announced limit, library delivered %r; tb %s' % (
                       sizes, got_back, t.tb), case)
            for e in peer.errors:
                _v(viol, 'peer-saw-protocol-error', e, case)
        return _fin(world, viol, case)
    finally:
        world.close()


def _acceptor(case):
    from pynetdicom2 import applicationentity, sopclass
    local, pmax = case['local'], case['peer']
    world = SimWorld('c10/%s/%s/%s/a' % (case['seed'], local, pmax))
    viol = []
    try:
        limit = pmax if (pmax and (not local or pmax < local)) else local
        sizes = _sizes(limit) + _near(limit, 'rsp', case['seed'])
        queries = []
        state = {'round': 0}

        class Srv(applicationentity.AE):
            def on_receive_find(self, context, ds):
                queries.append(len(ds.PatientName) + 8 if 'PatientName' in ds else 0)
                if case.get('reconf') is not None and state['round'] == 1:
                    # (in the last association of the case only: no later one is affected)
                    self.max_pdu_length = case['reconf']
                return iter([(_ds_of(n), 0xFF00) for n in sizes])

            def on_association_request(self, asce, assoc):
                if case.get('hook') is not None:
                    asce.max_pdu_length = local
                    world.sim.bump('probe.maximum_set_by_request_hook')
        ae = world.make_ae(Srv, 'SRV', 11112, [rc.IMPLICIT_LE],
                           local if case.get('hook') is None else case['hook'])
        ae.timeout = 3600
        ae.add_scp(sopclass.qr_find_scp)
        world.serve_ae(ae, ADDR)
        # two successive associations with byte-identical requests: what the first one
        # negotiated must not colour the second
        for rnd_no in (0, 1):
            del queries[:]
            out = {}
            state['round'] = rnd_no

            def script(peer):
                p = peer.associate()
                out['reply'] = p
                if not isinstance(p, dict) or p['kind'] != 'A-ASSOCIATE-AC':
                    return
                announced = peer.peer_max
                qsize = sizes[2]
                peer.send_message(1, {0x0002: FIND, 0x0100: 0x0020, 0x0110: 7, 0x0700: 0, 0x0800: 1},
                                  rc_ds(qsize), max_length=announced)
                out['q'] = qsize
                got = []
                for _ in range(len(sizes) + 1):
                    m = peer.read_message(timeout=900.0)
                    if not isinstance(m, dict) or 'fields' not in m:
                        break
                    got.append(len(m['data'] or b''))
                out['got'] = got
                peer.release()
            peer = peers.ScriptedRequestor(world.sim, world.net, ADDR, ((1, FIND, (rc.IMPLICIT_LE,)),),
                                           max_length=pmax, script=script)
            world.peers.append(peer)
            world.spawn(peer.run, 'peer', role='user')
            world.run(tmax=4000)
            world.drain(2.0)
            pair = 'local=%s peer=%s%s' % (_zero(local), _zero(pmax), '' if rnd_no == 0 else ' second-association')
            if peer.ac is None:
                _v(viol, 'association-not-accepted %s' % pair, 'reply %r errors %r handler %r' % (
                    out.get('reply'), peer.errors, world.handler_errors[:1]), case)
            else:
                ann = [x[1] for x in peer.ac['user_info'] if x[0] == 'max_length']
                if len(ann) != 1:
                    _v(viol, 'max-length-item-count', repr(ann), case)
                else:
                    a = ann[0]
                    # "announces a value it is itself prepared to receive (its configured maximum or
                    # less)": 0 means unlimited, so 0 is only allowed when configured 0
                    if (a == 0 and local != 0) or (local != 0 and a > local):
                        _v(viol, 'announced-more-than-configured %s' % pair,
                           'announced %r configured %r (peer announced %r)' % (a, local, pmax), case)
                for p in peer.pdata:
                    if pmax and p['length'] > pmax:
                        _v(viol, 'pdata-longer-than-peer-maximum', 'length %d > %d' % (p['length'], pmax),
                           case)
                        break
                if queries != [out.get('q')]:
                    _v(viol, 'messages-not-received-from-peer %s' % pair,
                       'peer sent a %r-byte query within the announced limit; handler saw %r; '
                       'handler errors %r' % (out.get('q'), queries, world.handler_errors[:1]), case)
                elif out.get('got') != sizes + [0]:
                    _v(viol, 'messages-not-delivered-to-peer %s' % pair,
                       'handler yielded sizes %r, peer completely received %r; handler errors %r' % (
                           sizes, out.get('got'), world.handler_errors[:1]), case)
                for e in peer.errors:
                    _v(viol, 'peer-saw-protocol-error', e, case)
        return _fin(world, viol, case)
    finally:
        world.close()


def rc_ds(n):
    import struct
    n = max(8, n - n % 2)
    return struct.pack('<HHI', 0x0010, 0x0010, n - 8) + b'A' * (n - 8)


def _fin(world, viol, case):
    sim = world.sim
    seen, uniq = set(), []
    for v in viol:
        if v['sig'] not in seen:
            seen.add(v['sig'])
            uniq.append(v)
    return {'violations': uniq, 'stats': dict(sim.stats), 'digest': sim.digest.hexdigest(),
            'sched_sig': '%s/%s/%s' % (case['role'], case['local'], case['peer']),
            'steps': sim.steps, 'vsecs': sim.now - 1000.0,
            'nontrivial': case['local'] != case['peer'] or case['local'] == 0,
            'sample': {'case': case}}
