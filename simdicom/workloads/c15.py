"""C15 -- C-STORE delivers the data set intact end to end; stored files are never clobbered.

The whole stack twice (real ClientAE + provider thread, real AE/StorageAE + handler thread +
provider thread) on the simulated transport and file system, 1..3 concurrent associations, seeded
schedules and segmentations; fault configuration: disk errors, RST, provider stalls."""
import random

from .. import refcodec as rc
from ..world import SimWorld
from .c07 import _read_meta

PROPERTY = 'C15'
LEVEL = 'exploration'
BUDGET = {'quick': 55, 'thorough': 900}
CHUNK = 4
EXHAUSTIVE = {'quick': False, 'thorough': False}
ADDR = ('srvhost', 11112)
CT = '1.2.840.10008.5.1.4.1.1.2'
MR = '1.2.840.10008.5.1.4.1.1.4'
TSS = {'ile': rc.IMPLICIT_LE, 'ele': rc.EXPLICIT_LE, 'ebe': rc.EXPLICIT_BE}
RULE = ('cases = seeded data sets (few bytes .. hundreds of fragments; nested sequences; odd-length '
        'values) x transfer syntax {implicit LE, explicit LE, explicit BE} x asymmetric maximum '
        'lengths x source {Dataset, Part-10 file} x reception {file-backed storage_scp via '
        'AEBase.get_file, StorageAE directory, in-memory user SCP} x handler outcome {success, '
        'warning, failure, EventHandlingError} x 1..3 stores per association x 1..3 concurrent '
        'associations incl. the SAME instance UID, under seeded schedules; fault configuration: '
        'ENOSPC/EIO at the n-th write, RST, stalls; non-trivial = multi-fragment or concurrent; '
        'distinct = distinct scheduler signatures'
        '; hot family (2-3 associations, line-level pre-emption with parking in the file-building functions); slow-receiver family (2-32 KiB of buffering, storing side stalled 6-45 s in mid-transfer); split family: CT into files, MR in memory, alternating on one association')
ASSUMPTIONS = ['pydicom is trusted to encode/decode data sets at both ends (the byte-level '
               'comparison is independent of it)', 'under injected disk errors / RST a store may '
               'fail or stay unacknowledged, but an acknowledged one must be right and older '
               'files intact']


def cases(tier, seed):
    rnd = random.Random('c15/%d' % seed)
    # hot family: several associations receive file-backed instances at the same time, with
    # line-level pre-emption inside the functions that build the stored file
    for i in range(250 if tier == 'quick' else 8000):
        yield dict(ts=rnd.choice(sorted(TSS)), cmax=rnd.choice([1024, 16384]),
                   smax=rnd.choice([1024, 16384]), recv=rnd.choice(['tempfile', 'dir']),
                   source='ds', nclients=rnd.choice([2, 3]), nstores=rnd.randint(1, 2),
                   same_uid=rnd.random() < 0.3, outcome='success', size=rnd.choice([0, 10, 100]),
                   fault=None, align=False, mixed_ts=True, hot=True, seed=seed * 100019 + i)
    # slow receiver: the two kernels buffer only `cap` bytes between the applications and the
    # storing side stops reading for many seconds in the middle of a transfer that is larger
    # than that - the sender has to wait (flow control), nothing may be lost or given up
    for i in range(60 if tier == 'quick' else 3000):
        yield dict(ts=rnd.choice(sorted(TSS)), cmax=rnd.choice([1024, 16384, 65536]),
                   smax=rnd.choice([1024, 16384, 65536]), recv=rnd.choice(['tempfile', 'dir', 'mem']),
                   source=rnd.choice(['ds', 'file']), nclients=1, nstores=rnd.randint(1, 2),
                   same_uid=False, outcome=rnd.choice(['success', 'warning']),
                   size=rnd.choice([20000, 60000]), fault=None, align=False, mixed_ts=False,
                   slow=dict(cap=rnd.choice([2048, 8192, 32768]),
                             stall=rnd.choice([6.0, 12.0, 45.0]), at=rnd.randint(60, 400),
                             # the application has given every socket of the process a
                             # time-out (longer than any stall here): nothing changes
                             deftimeout=rnd.choice([None, None, 60.0, 120.0])),
                   seed=seed * 100057 + i)
    # one storage class is received into files, the other in memory, and instances of both
    # follow each other on ONE association
    for i in range(80 if tier == 'quick' else 3000):
        yield dict(ts=rnd.choice(sorted(TSS)), cmax=rnd.choice([128, 1024, 16384]),
                   smax=rnd.choice([128, 1024, 16384]), recv='split',
                   source=rnd.choice(['ds', 'file']), nclients=rnd.choice([1, 1, 2]),
                   nstores=rnd.randint(2, 4), same_uid=False,
                   outcome=rnd.choice(['success', 'warning']), size=rnd.choice([0, 100, 900]),
                   fault=None, align=False, mixed_ts=False, seed=seed * 100069 + i)
    # (the bulk comes last so that a wall-clock budget cut never drops the family above)
    n = 1500 if tier == 'quick' else 100000
    for i in range(n):
        recv = rnd.choice(['tempfile', 'dir', 'dir', 'mem'])
        fault = None
        if rnd.random() < 0.2:
            fault = rnd.choice(['disk', 'rst', 'stall'])
        nclients = rnd.choice([1, 1, 2, 3])
        yield dict(ts=rnd.choice(sorted(TSS)), cmax=rnd.choice([64, 128, 1024, 16384, 65536]),
                   smax=rnd.choice([64, 128, 1024, 16384, 65536]), recv=recv,
                   source=rnd.choice(['ds', 'ds', 'file']), nclients=nclients,
                   nstores=rnd.randint(1, 3), same_uid=rnd.random() < 0.5,
                   outcome=rnd.choice(['success', 'success', 'warning', 'failure', 'raise']),
                   size=rnd.choice([0, 10, 100, 900, 4000]), fault=fault, align=rnd.random() < 0.35,
                   mixed_ts=nclients > 1 and rnd.random() < 0.6,
                   srv_uses=rnd.random() < 0.3, seed=seed * 100003 + i)


def make_ds(rnd, uid_, sop, size):
    import pydicom
    ds = pydicom.Dataset()
    ds.SOPClassUID = sop
    ds.SOPInstanceUID = uid_
    ds.PatientName = 'N' * rnd.randint(0, 9)
    ds.PatientID = 'x' * rnd.choice([1, 2, 3, 8])           # odd lengths get padded
    if size:
        ds.ImageComments = 'c' * size
    if rnd.random() < 0.5:
        it = pydicom.Dataset()
        it.ReferencedSOPClassUID = sop
        it.ReferencedSOPInstanceUID = '1.2.3.%d' % rnd.randrange(1000)
        inner = pydicom.Dataset()
        inner.CodeValue = 'abc'
        it.PurposeOfReferenceCodeSequence = pydicom.Sequence([inner])
        ds.ReferencedImageSequence = pydicom.Sequence([it, it])
    ds.Rows = rnd.randrange(65536)
    return ds


def enc(ds, ts):
    from pydicom import filebase, filewriter
    fp = filebase.DicomBytesIO()
    fp.is_implicit_VR = ts == rc.IMPLICIT_LE
    fp.is_little_endian = ts != rc.EXPLICIT_BE
    filewriter.write_dataset(fp, ds)
    return fp.parent.getvalue()


def part10(ds, ts):
    """Part-10 file bytes for ds in transfer syntax ts (preamble + meta + data set)."""
    import struct
    def el(tag, vr, val):
        if len(val) % 2:
            val += b'\0'
        if vr in (b'OB',):
            return struct.pack('<HH2sHI', 2, tag, vr, 0, len(val)) + val
        return struct.pack('<HH2sH', 2, tag, vr, len(val)) + val
    body = el(1, b'OB', b'\0\1') + el(2, b'UI', str(ds.SOPClassUID).encode()) + \
        el(3, b'UI', str(ds.SOPInstanceUID).encode()) + el(0x10, b'UI', ts.encode()) + \
        el(0x12, b'UI', b'1.2.3.4')
    meta = struct.pack('<HH2sHI', 2, 0, b'UL', 4, len(body)) + body
    return b'\0' * 128 + b'DICM' + meta + enc(ds, ts)


STATUS = {'success': 0x0000, 'warning': 0xB000, 'failure': 0xA700, 'raise': 0xC000}


def run_case(case):
    from pynetdicom2 import applicationentity, sopclass, exceptions, StorageAE
    import pynetdicom2
    rnd = random.Random('c15r/%s' % case['seed'])
    world = SimWorld('c15/%s' % case['seed'], with_fs=True)
    if case.get('slow'):
        world.net.capacity = case['slow']['cap']
        if case['slow'].get('deftimeout'):
            world.net.default_timeout = case['slow']['deftimeout']
    fs = world.fs
    viol = []
    ts = TSS[case['ts']]

    def v(rule, detail):
        viol.append({'sig': 'C15 %s recv=%s' % (rule, case['recv']),
                     'detail': '%s\ncase %r\nhandler errors %r' % (detail, case,
                                                                   world.handler_errors[:1])})
    try:
        received = []       # (assoc-ish, sop class, bytes of data set, meta info or None)
        outcome = case['outcome']
        status = STATUS[outcome]

        def record(context, ds):
            if hasattr(ds, 'read'):
                pos = ds.tell()
                content = bytes(ds.data)
                try:
                    meta, off = _read_meta(content)
                    received.append(dict(kind='file', ctx=context, data=content[off:], meta=meta,
                                         pos=pos, path=ds.path))
                except ValueError as e:
                    received.append(dict(kind='file', ctx=context, data=None, error=str(e),
                                         path=ds.path))
            else:
                received.append(dict(kind='mem', ctx=context, data=bytes(ds), meta=None))
            if outcome == 'raise':
                raise exceptions.EventHandlingError('handler failed')
            return status

        tsl = sorted(TSS.values())
        client_ts = [rnd.choice(tsl) if case.get('mixed_ts') else ts for _ in range(case['nclients'])]
        srv_ts = tsl if case.get('mixed_ts') else [ts]
        if case['recv'] == 'dir':
            class Srv(StorageAE):
                def on_receive_store(self, context, ds):
                    return record(context, ds)
            srv = world.make_ae(Srv, '/store', 'SRV', 11112, srv_ts, case['smax'])
        else:
            class Srv(applicationentity.AE):
                def on_receive_store(self, context, ds):
                    return record(context, ds)
            srv = world.make_ae(Srv, 'SRV', 11112, srv_ts, case['smax'])
        srv.timeout = 600

        def store_files(asce, ctx, msg):
            return sopclass.storage_scp(asce, ctx, msg)
        store_files.sop_classes = [CT, MR]
        store_files.store_in_file = True

        def store_mem(asce, ctx, msg):
            from pynetdicom2 import dimsemessages, statuses
            try:
                st = asce.ae.on_receive_store(ctx, msg.data_set)
            except exceptions.EventHandlingError:
                st = statuses.C_STORE_CANNON_UNDERSTAND
            rsp = dimsemessages.CStoreRSPMessage()
            rsp.message_id_being_responded_to = msg.message_id
            rsp.affected_sop_instance_uid = msg.affected_sop_instance_uid
            rsp.sop_class_uid = msg.sop_class_uid
            rsp.status = int(st)
            asce.send(rsp, ctx.id)
        store_mem.sop_classes = [CT, MR]
        if case.get('srv_uses') and hasattr(srv, 'add_scu'):
            # the storing entity is also a storage USER (a router, a C-MOVE provider) and was
            # told so first
            srv.add_scu(sopclass.storage_scu, [CT, MR])
        if case['recv'] == 'split':
            store_files.sop_classes = [CT]
            store_mem.sop_classes = [MR]
            srv.add_scp(store_files).add_scp(store_mem)
        else:
            srv.add_scp(store_mem if case['recv'] == 'mem' else store_files)
        world.serve_ae(srv, ADDR)
        results = []         # per store: dict(uid, bytes, status or exc, acked)
        shared_uid = '1.2.826.0.1.777.%d' % rnd.randrange(10 ** 6)
        plans = []
        for c in range(case['nclients']):
            stores = []
            for k in range(case['nstores']):
                uid_ = shared_uid if case['same_uid'] else '1.2.826.0.1.%d.%d.%d' % (
                    c, k, rnd.randrange(10 ** 6))
                sop = rnd.choice([CT, MR])
                if case['recv'] == 'split':
                    sop = [CT, MR][(k + c) % 2]
                ds = make_ds(rnd, uid_, sop, case['size'] + rnd.choice([0, 1, 2]))
                if case.get('align'):
                    # make the encoded data set an exact multiple of the fragment payload
                    frag = min(case['cmax'], case['smax']) - 6
                    base = len(enc(ds, ts))
                    delta = (-base) % frag
                    if delta % 2 == 0:
                        ds.ImageComments = str(getattr(ds, 'ImageComments', '')) + 'z' * delta
                        if len(ds.ImageComments) % 2:
                            ds.ImageComments = ds.ImageComments + 'zz'[:1]
                stores.append((uid_, sop, ds))
            plans.append(stores)

        def client(c):
            ts = client_ts[c]
            cli = world.make_ae(applicationentity.ClientAE, 'CLI%d' % c, [ts], case['cmax'])
            cli.timeout = 600
            cli.add_scu(sopclass.storage_scu, [CT, MR])
            try:
                with cli.request_association({'aet': 'SRV', 'address': ADDR[0],
                                              'port': ADDR[1]}) as assoc:
                    for k, (uid_, sop, ds) in enumerate(plans[c]):
                        rec = dict(client=c, uid=uid_, sop=sop, data=enc(ds, ts), acked=False, ts=ts)
                        results.append(rec)
                        scu = assoc.get_scu(sop)
                        if case['source'] == 'file':
                            path = '/src/c%d_%d.dcm' % (c, k)
                            fs.put(path, part10(ds, ts))
                            st = scu(path, k + 1)
                        else:
                            st = scu(ds, k + 1)
                        rec['status'] = int(st)
                        rec['acked'] = True
            except Exception as e:  # pylint: disable=broad-except
                results.append(dict(client=c, exc=e, uid=None))
        # (installed before any simulated thread starts: a thread is traced from its start)
        pre = None
        if case.get('hot'):
            from .. import preempt
            pre = preempt.Preempter(world.sim, prob=0.5, park_prob=0.3, park_max=0.2,
                                    funcs={'write_meta', 'get_file', '_get_storage_file',
                                           'process', 'storage_scp', 'storage_scu', 'encode',
                                           'send'},
                                    files=('applicationentity.py', '__init__.py', 'sopclass.py'))
            pre.install()
        for c in range(case['nclients']):
            world.spawn(lambda c=c: client(c), 'client%d' % c)
        faulty = case.get('fault')
        if case.get('slow'):
            from .. import sched
            sl = case['slow']

            def do_slow():
                duls = [x for x in world.sim.tasks if x.role == 'dul' and not x.done]
                if len(duls) >= 2:
                    world.sim.stall(duls[-1], sl['stall'])      # the storing side's provider
                    world.sim.bump('fault.slow_receiver')
            world.sim.actors.append(sched.Trigger(
                'slow', lambda: world.sim.steps >= sl['at'] and
                len([x for x in world.sim.tasks if x.role == 'dul']) >= 2, do_slow))
        if faulty == 'disk':
            fs.fail_errno = rnd.choice([28, 5])
            fs.fail_write_at = rnd.randint(1, 12)
        elif faulty == 'rst':
            from .. import sched
            k = rnd.randint(40, 400)
            world.sim.actors.append(sched.Trigger(
                'rst', lambda: world.sim.steps >= k and len(world.net.sockets) >= 2,
                lambda: (world.net.sockets[0].reset(), world.sim.bump('fault.rst'))))
        elif faulty == 'stall':
            from .. import sched
            k = rnd.randint(40, 400)

            def do_stall():
                duls = [x for x in world.sim.tasks if x.role == 'dul' and not x.done]
                if duls:
                    world.sim.stall(rnd.choice(duls), rnd.choice([0.1, 0.4, 0.8]))
            world.sim.actors.append(sched.Trigger('stall', lambda: world.sim.steps >= k, do_stall))
        try:
            world.run(tmax=3000)
            world.drain(3.0)
        finally:
            if pre is not None:
                pre.uninstall()
        relaxed = faulty in ('disk', 'rst')
        acked = [r for r in results if r.get('acked')]
        failed = [r for r in results if 'exc' in r]
        if failed and not relaxed:
            v('store-failed exc=%s' % type(failed[0]['exc']).__name__, repr(failed[0]['exc']))
        # every acknowledged store: status and content
        for r in acked:
            if r['status'] != status and not relaxed:
                v('status-differs-from-handler outcome=%s' % outcome,
                  'handler %04x sender got %04x' % (status, r['status']))
        if not relaxed and len(received) != len([r for r in results if 'data' in r]):
            v('handler-call-count', '%d stores sent, handler ran %d times' % (
                len([r for r in results if 'data' in r]), len(received)))
        sent_by_data = {}
        for r in results:
            if 'data' in r:
                sent_by_data.setdefault(r['data'], []).append(r)
        for rec in received:
            if rec['data'] is None:
                v('received-file-unreadable', rec.get('error', ''))
                continue
            if rec['data'] not in sent_by_data:
                v('received-data-differs-from-any-sent', 'got %d bytes; sent sizes %r' % (
                    len(rec['data']), sorted(len(d) for d in sent_by_data)))
                continue
            r = sent_by_data[rec['data']][0]
            if str(rec['ctx'].sop_class) != r['sop']:
                v('wrong-sop-class-context', '%s vs %s' % (rec['ctx'].sop_class, r['sop']))
            if rec['meta'] is not None:
                m = rec['meta']
                g = lambda t: m.get(t, b'').rstrip(b'\0').decode('ascii', 'replace')
                if g((2, 0x10)) != r['ts']:
                    v('file-meta-transfer-syntax-wrong', 'meta says %r, the instance was sent in %r'
                      % (g((2, 0x10)), r['ts']))
                if str(rec['ctx'].supported_ts) != r['ts']:
                    v('handler-context-transfer-syntax-wrong', '%s vs %s' % (
                        rec['ctx'].supported_ts, r['ts']))
                if g((2, 3)) != r['uid'] or g((2, 2)) != r['sop']:
                    v('file-meta-uids-wrong', 'meta %r/%r sent %r/%r' % (
                        g((2, 2)), g((2, 3)), r['sop'], r['uid']))
                if rec.get('pos') != 0:
                    v('file-position-not-at-start', repr(rec.get('pos')))
        # directory model (StorageAE): one intact file per acknowledged store
        if case['recv'] == 'dir':
            files = [p for p in fs.files if p.startswith('/store/')]
            contents = {}
            for p in files:
                try:
                    meta, off = _read_meta(bytes(fs.files[p]))
                    contents[p] = bytes(fs.files[p])[off:]
                except ValueError as e:
                    contents[p] = None
                    if not relaxed:
                        v('stored-file-not-readable', '%s: %s' % (p, e))
            n_ok = len([r for r in acked if r['status'] in (0, 0xB000)]) if outcome != 'raise' \
                else 0
            ack_all = acked
            pool = [c for c in contents.values() if c is not None]
            for r in ack_all:
                if r['data'] in pool:
                    pool.remove(r['data'])
                else:
                    v('acknowledged-instance-has-no-intact-file same_uid=%s concurrent=%s' % (
                        case['same_uid'], case['nclients'] > 1),
                      'uid %s (%d bytes) acknowledged with %04x; files %r' % (
                          r['uid'], len(r['data']), r['status'],
                          sorted((p, len(c) if c is not None else None)
                                 for p, c in contents.items())))
                    break
            if not relaxed and len(files) != len([r for r in results if 'data' in r]):
                v('file-count-differs same_uid=%s concurrent=%s' % (case['same_uid'],
                                                                     case['nclients'] > 1),
                  '%d stores, %d files: %r' % (len([r for r in results if 'data' in r]),
                                               len(files), sorted(files)))
            trunc = [h for h in fs.history if h[0] == 'truncate-open' and h[1].startswith('/store/')]
            if trunc:
                v('existing-file-opened-for-truncation same_uid=%s concurrent=%s' % (
                    case['same_uid'], case['nclients'] > 1), repr(trunc[:3]))
        dead = [x for x in world.sim.tasks if x.role == 'dul' and x.exc is not None]
        if dead and not relaxed:
            v('provider-died exc=%s' % type(dead[0].exc).__name__, dead[0].tb)
        if world.handler_errors and not relaxed:
            v('acceptor-handler-crashed', world.handler_errors[0][-400:])
        sim = world.sim
        seen, uniq = set(), []
        for x in viol:
            if x['sig'] not in seen:
                seen.add(x['sig'])
                uniq.append(x)
        st = dict(sim.stats)
        if faulty:
            st['fault.cfg_%s' % faulty] = 1
        return {'violations': uniq, 'stats': st, 'digest': sim.digest.hexdigest(),
                'sched_sig': sim.sched_sig.hexdigest(), 'steps': sim.steps,
                'vsecs': sim.now - 1000.0,
                'nontrivial': case['nclients'] > 1 or case['size'] >= 100,
                'sample': {'case': case, 'acked': len(acked), 'received': len(received)}}
    finally:
        world.close()
