"""C13 -- every association ending terminates the provider and releases the connection.

P1 part (fault_enumeration): each conversation of the corpus is cut after EVERY byte prefix of the
peer's stream (and at every turn boundary) by FIN, by RST, or by the peer going silent; in a
second family a stop request (kill) is issued at every quiescent point.  Bounded liveness in
virtual time.  The association-level endings (real AE / ClientAE, release/abort/kill under a
peer that never closes) are exercised by the P2 part."""
import random

from ..sched import HarnessError

from .. import convo, refcodec as rc
from .. import sched
from ..rig import Rig, describe_indication
from .c05 import _where

PROPERTY = 'C13'
LEVEL = 'fault_enumeration'
BUDGET = {'quick': 55, 'thorough': 900}
CHUNK = 24
EXHAUSTIVE = {'quick': False, 'thorough': True}
ARTIM = 10.0
RULE = ('cases = conversation (echo, multi-fragment store, pipelined, release by either side, '
        'abort by either side, reject, unknown PDU, both release collisions, find) x role x cut '
        'offset over every byte prefix of the peer stream x ending {FIN, RST, silence} (quick: '
        'every offset with one seeded ending; thorough: all three) + kill requested at every '
        'quiescent point + provider stalls; non-trivial = cut strictly inside the conversation; '
        'distinct = distinct (conversation, offset, ending, kill point)'
        '; resets right behind complete PDUs; association-level endings on real AEs under silent peers, also while other associations come and go (ARTIM, not the application time-out, must end the waiting); kill_busy: kill() right after a step has been handed to the provider; stop() polled from another thread during kill()')
ASSUMPTIONS = ['silence only has to end the provider where ARTIM is armed (Sta2, Sta13)',
               'bound = ARTIM (10 s) + 1 s of virtual time after the last environment action',
               'kill() = DULServiceProvider.kill(); Association.kill is covered in the P2 part']

_CORPUS = None
NAMES = ['A1_echo', 'A2_store', 'A3_pipelined', 'A4_abort_mid', 'A5_refused', 'A19_rq_v2_refused',
         'A6_unknown_type',
         'A7_user_releases', 'A8_user_aborts', 'A9_collision', 'A12_rq_echo_rel_one_turn',
         'R1_echo', 'R2_reject', 'R3_find', 'R4_collision', 'R5_ac_then_abort', 'R6_peer_releases']


def _corpus():
    global _CORPUS
    if _CORPUS is None:
        _CORPUS = convo.corpus()
    return _CORPUS


def _stream_len(c):
    return sum(len(b''.join(s[1])) for s in c['steps'] if s[0] in ('peer', 'peer+fin'))


def cases(tier, seed):
    corp = _corpus()
    rnd = random.Random('c13/%d' % seed)
    endings = ['fin', 'rst', 'silence', 'chatter']
    for name in NAMES:
        n = _stream_len(corp[name])
        for L in range(0, n + 1):
            ends = endings if tier == 'thorough' else [endings[(L + seed) % 4]]
            if L == n and 'chatter' not in ends:
                ends = ends + ['chatter']
            for e in ends:
                # the partial PDU before the cut arrives in one piece or dribbles in (header
                # first, then a bit of the body, then nothing)
                for dr in ([False, True] if tier == 'thorough' else [bool((L + seed) % 2)]):
                    yield dict(convo=name, cut=L, ending=e, kill=None, dribble=dr, seed=seed)
        # the peer resets the connection right behind a complete PDU (or behind the whole
        # stream): the PDU is still readable, but the connection is already gone when the
        # provider acts on it
        ends_ = []
        acc = 0
        for st_ in corp[name]['steps']:
            if st_[0] in ('peer', 'peer+fin'):
                for pdu_ in st_[1]:
                    acc += len(pdu_)
                    ends_.append(acc)
        for L in ends_:
            yield dict(convo=name, cut=L, ending='rst', kill=None, dribble=False, rst_now=True,
                       seed=seed)
        for k in range(8):
            yield dict(convo=name, cut=None, ending='rst', kill=None, rst_at_send=k, seed=seed)
        if corp[name]['role'] == 'requestor':
            for f in ('refused', 'timeout', 'netunreach', 'hostunreach', 'addrnotavail',
                      'gaierror', 'emfile'):
                yield dict(convo=name, cut=None, ending='silence', kill=None, connect=f, seed=seed)
        nsteps = len(corp[name]['steps'])
        for k in range(nsteps + 1):
            yield dict(convo=name, cut=None, ending=None, kill=k, seed=seed)
        # ... and the stop request while the provider is busy: step k has just been handed to it
        # (peer bytes unread, user primitive queued) when kill() is called from another thread
        for k in range(nsteps):
            for j in range(2):
                yield dict(convo=name, cut=None, ending=None, kill=k, kill_busy=True,
                           stop_poller=bool(j), seed=seed * 7 + j)
        # ... and while another thread keeps asking the provider to stop if it is idle (stop()
        # is what Association.kill polls before it resorts to kill())
        for k in range(0, nsteps + 1, 2):
            yield dict(convo=name, cut=None, ending=None, kill=k, stop_poller=True, seed=seed)
    # a long pipelined turn to a user that does not consume: cuts only behind every 8th PDU,
    # plus a stop request after every step
    name = 'A18_flood_deaf_user_aborts'
    acc_ = 0
    k_ = 0
    for st_ in corp[name]['steps']:
        if st_[0] in ('peer', 'peer+fin'):
            for pdu_ in st_[1]:
                acc_ += len(pdu_)
                k_ += 1
                if k_ % 8 == 1:
                    for e in (endings if tier == 'thorough' else [endings[(k_ + seed) % 4]]):
                        yield dict(convo=name, cut=acc_, ending=e, kill=None, dribble=False,
                                   seed=seed)
    yield dict(convo=name, cut=None, ending='silence', kill=None, seed=seed)
    yield dict(convo=name, cut=None, ending='fin', kill=None, seed=seed)
    for k in range(len(corp[name]['steps']) + 1):
        yield dict(convo=name, cut=None, ending=None, kill=k, seed=seed)
    n = 300 if tier == 'quick' else 6000
    for i in range(n):
        name = rnd.choice(NAMES)
        L = rnd.randrange(_stream_len(corp[name]) + 1)
        yield dict(convo=name, cut=L, ending=rnd.choice(endings), kill=None,
                   stall=round(rnd.choice([0.2, 0.7, 3.0]), 1), seed=seed * 9973 + i)


def run_case(case):
    c = _corpus()[case['convo']]
    role = c['role']
    rig = Rig('c13/%s/%s' % (case['seed'], case['convo']), role=role)
    viol = []
    name = case['convo']

    def v(rule, detail=''):
        viol.append({'sig': ('C13 %s' % rule) if rule.startswith(('loop-died', 'kill-', 'loop-still')) else
                     'C13 %s convo=%s' % (rule, name),
                     'detail': '%s\ncase %r\nstate %s sock_gone %s blocked %r\nloop tb: %s' % (
                         detail, case, rig.state(), rig.sock_gone(), rig.sim.blocked_report(),
                         rig.task.tb)})
    try:
        user = convo.ReactiveUser(rig, c.get('user'))
        if case.get('connect'):
            rig.world.net.connect_fault = case['connect']
        if case.get('rst_at_send') is not None:
            # fault: the connection is reset exactly when the provider is about to write its
            # k-th PDU (between the select that saw nothing and the sendall)
            cnt = {'n': 0, 'last': None}

            def at_send():
                t = rig.task
                if t.kind == 'sendall' and not t.done:
                    if cnt['last'] != t.steps:
                        cnt['last'] = t.steps
                        cnt['n'] += 1
                    return cnt['n'] == case['rst_at_send'] + 1
                return False

            def do_rst():
                if rig.prov_sock is not None:
                    rig.peer_rst()
                    rig.sim.bump('fault.rst_before_sendall')
            rig.sim.actors.append(sched.Trigger('rst@send', at_send, do_rst))
        busy = lambda: user.task.kind not in ('q.get',) and not user.task.done
        delivered = 0
        cut = case['cut']
        rst_now = bool(case.get('rst_now')) and case['ending'] == 'rst' and cut is not None
        rst_done = False
        ended = False
        user_ended = False
        associated = False
        killed_at = None
        busy_killer = None

        def stop_poller():
            for _ in range(80):
                rig.provider.stop()
                rig.sim.sleep(0.004)
        steps = c['steps']
        stall_at = None
        if case.get('stall'):
            stall_at = random.Random('c13s/%s' % case['seed']).randrange(len(steps))
        for i, st in enumerate(steps):
            if case['kill'] is not None and case['kill'] == i:
                killed_at = i
                if case.get('kill_busy'):
                    if st[0] in ('peer', 'peer+fin') and rig.prov_sock is not None:
                        for pdu in st[1]:
                            rig.peer_bytes(pdu)
                    elif st[0] == 'user':
                        convo.user_action(rig, st[1])
                    brnd = random.Random('c13kb/%s' % case['seed'])
                    for _ in range(brnd.choice([0, 0, 1, 2, 3, 5, 8])):
                        if not rig.sim.step(until=rig.sim.now + 0.2):
                            break
                    if case.get('stop_poller'):
                        rig.sim.spawn(stop_poller, name='poller', role='user')
                    busy_killer = rig.sim.spawn(rig.provider.kill, name='killer', role='user')
                break
            if stall_at == i:
                rig.sim.stall(rig.task, case['stall'])
            if st[0] in ('peer', 'peer+fin'):
                if rig.prov_sock is None:
                    rig.settle(extra=busy)
                    if rig.prov_sock is None:
                        break
                for pdu in st[1]:
                    if rst_now and delivered + len(pdu) == cut:
                        rig.peer_bytes(pdu)
                        delivered += len(pdu)
                        rig.peer_rst_behind()
                        rst_done = True
                        ended = True
                        break
                    if cut is not None and delivered + len(pdu) > cut:
                        part = pdu[:cut - delivered]
                        if part:
                            if case.get('dribble') and len(part) > 7:
                                k = 6 + (len(part) - 6) // 2
                                rig.peer_bytes(part[:6])
                                rig.advance(0.06)
                                rig.peer_bytes(part[6:k])
                                rig.advance(0.06)
                                rig.peer_bytes(part[k:])
                            else:
                                rig.peer_bytes(part)
                            delivered += len(part)
                        ended = True
                        break
                    rig.peer_bytes(pdu)
                    delivered += len(pdu)
                    rig.settle(extra=busy)
                if ended:
                    break
                if st[0] == 'peer+fin':
                    rig.peer_fin()
                rig.settle(extra=busy)
                if cut is not None and delivered >= cut:
                    ended = True
                    break
            elif st[0] == 'user':
                if cut is not None and delivered >= cut and cut == 0 and role == 'acceptor':
                    ended = True
                    break
                convo.user_action(rig, st[1])
                if st[1] == 'associate':
                    associated = True
                if st[1] in ('abort',):
                    user_ended = True
                rig.settle(extra=busy)
            elif st[0] == 'fin':
                if rig.prov_sock is not None and not rig.prov_sock.rx.fin:
                    rig.peer_fin()
                rig.settle(extra=busy)
        if cut is not None and not ended and rig.prov_sock is None and role == 'requestor':
            pass
        rig.settle(extra=busy)
        if (c.get('user') or {}).get('reject'):
            user_ended = True        # the local user itself refused the association
        state_at_cut = rig.state()
        armed = rig.timer_running()
        gone_at_cut = rig.sock_gone()
        ending = case['ending']
        if case['kill'] is None:
            if rig.prov_sock is not None and not rig.prov_sock.rx.fin and not gone_at_cut:
                if ending == 'fin':
                    rig.peer_fin()
                elif ending == 'rst' and not rst_done:
                    rig.peer_rst()
            rig.settle(extra=busy)
            if ending == 'chatter':
                # the peer does not close but keeps talking: association requests and junk every
                # 3 s.  Where ARTIM is armed it is a deadline, not an inactivity timer.
                chat = [rc.enc_assoc_rq(), rc.enc_pdu(0x0B, b'\0\0'), rc.enc_pdata([(1, 3, b'\0\0')])]
                for i in range(4):
                    rig.advance(3.0)
                    if rig.prov_sock is not None and not rig.sock_gone():
                        rig.peer_bytes(chat[(i + (cut or 0)) % 3])
                    rig.settle(extra=busy)
                rig.advance(1.0)
            else:
                rig.advance(ARTIM + 1.0)
            rig.settle(extra=busy)
            must_end = ending in ('fin', 'rst') or armed or gone_at_cut or \
                (rig.prov_sock is not None and rig.prov_sock.rx.fin)
            if ending == 'chatter' and not gone_at_cut:
                # only in Sta13 is ARTIM a fixed deadline whatever the peer sends (AA-6/AA-7 do
                # not touch it); in Sta2 an unexpected PDU legitimately restarts it (AA-1) and
                # in the other states the table answers the chatter (C05's subject)
                must_end = state_at_cut == 'Sta13'
            if rig.prov_sock is None:
                must_end = False        # never connected (requestor that has not started)
            if case.get('connect') and associated:
                # the transport connection could not be opened: the provider must be idle again
                rig.advance(80.0)
                rig.settle(extra=busy)
                if rig.loop_dead():
                    v('loop-died exc=%s at=%s fault=connect-%s' % (
                        type(rig.task.exc).__name__ if rig.task.exc else '-',
                        _where(rig.task.tb), case['connect']))
                elif rig.state() != 'Sta1' or not rig.sock_gone():
                    v('not-idle-after-connect-%s' % case['connect'])
                elif not any(getattr(x, 'pdu_type', None) in (3, 7) for x in user.seen):
                    v('user-not-told-after-connect-%s' % case['connect'])
            if case.get('connect'):
                pass
            elif rig.loop_dead():
                v('loop-died exc=%s at=%s fault=%s' % (
                    type(rig.task.exc).__name__ if rig.task.exc else '-', _where(rig.task.tb),
                    'rst-before-sendall' if case.get('rst_at_send') is not None else ending))
            elif must_end:
                if rig.state() != 'Sta1' or not rig.sock_gone():
                    v('not-idle-within-bound ending=%s from=%s' % (ending, state_at_cut))
                elif not rig.prov_sock.closed:
                    v('connection-not-closed ending=%s from=%s' % (ending, state_at_cut))
                indicated = any(getattr(x, 'pdu_type', None) == 1 for x in user.seen) or associated
                # (told = handed to the user or waiting in its queue: a user that has stopped
                # taking indications has still been told)
                told = any(getattr(x, 'pdu_type', None) in (3, 5, 6, 7)
                           for x in list(user.seen) + list(rig.provider.to_service_user.items))
                if indicated and not told and not user_ended and not viol:
                    v('user-not-told ending=%s from=%s' % (ending, state_at_cut),
                      'indications %r' % [describe_indication(x) for x in user.seen])
        # a request to stop the provider always completes
        if not rig.loop_dead() or busy_killer is not None:
            if case.get('stop_poller') and busy_killer is None:
                rig.sim.spawn(stop_poller, name='poller', role='user')
            killer = busy_killer or rig.sim.spawn(rig.provider.kill, name='killer', role='user')
            rig.sim.run_for(2.0, pred=lambda: killer.done)
            if not killer.done:
                v('kill-does-not-return at=%s' % rig.state(), 'provider blocked at %s' % rig.task.kind)
            elif not rig.task.done:
                v('loop-still-running-after-kill at=%s' % rig.state())
            elif rig.task.exc is not None:
                v('loop-died-on-kill exc=%s' % type(rig.task.exc).__name__)
        rig.wire_take()
        pdus, rem = rc.parse_stream(rig.wire_bytes)
        if user.task.exc is not None:
            return {'harness_error': 'reactive user died: %s' % user.task.tb, 'violations': []}
        sim = rig.sim
        st = dict(sim.stats)
        if ending:
            st['fault.%s' % ending] = 1
        if case['kill'] is not None:
            st['fault.kill_request'] = 1
        total = _stream_len(c)
        return {'violations': viol, 'stats': st, 'digest': sim.digest.hexdigest(),
                'sched_sig': '%s/%s/%s/%s' % (name, cut, ending, case['kill']),
                'steps': sim.steps, 'vsecs': sim.now - 1000.0,
                'nontrivial': (cut is not None and 0 < cut < total) or case['kill'] is not None,
                'sample': {'case': case, 'state_at_cut': state_at_cut, 'final': rig.state(),
                           'indications': [describe_indication(x) for x in user.seen],
                           'wire': [p['kind'] for p in pdus]},
                'sets': {'states_at_cut': [state_at_cut]}}
    except HarnessError as e:
        if 'step budget exhausted' not in str(e):
            raise
        # 200 000 scheduling steps in a conversation that takes a few hundred: some thread goes
        # round and round without ever waiting for anything - the provider is not returning to
        # idle within any bound.  (Reported like every violation only after it has reproduced
        # in a fresh interpreter.)
        busy = sorted(rig.sim.tasks, key=lambda t_: -getattr(t_, 'steps', 0))[:1]
        sim = rig.sim
        return {'violations': [{
            'sig': 'C13 spins-without-end convo=%s busiest=%s at=%s' % (
                name, busy[0].role if busy else '-', rig.state()),
            'detail': '%s after %.3f virtual seconds\ncase %r\nblocked %r' % (
                e, sim.now - 1000.0, case, sim.blocked_report())}],
            'stats': dict(sim.stats), 'digest': sim.digest.hexdigest(),
            'sched_sig': 'spin/%s' % name, 'steps': sim.steps, 'vsecs': sim.now - 1000.0,
            'nontrivial': True, 'sample': {'case': case}}
    finally:
        rig.close()


# ------------------------------------------------------------------------------------------------
# Association-level endings (P2): the real ClientAE / AE with all their threads against a scripted
# peer that goes silent or never closes at the points where the standard arms ARTIM.

from .. import peers as _peers           # noqa: E402
from ..world import SimWorld as _SimWorld  # noqa: E402

ASSOC_SCENARIOS = ['client:release-unanswered', 'client:peer-never-closes-after-rp',
                   'client:silent-after-connect', 'client:rj-never-closes',
                   'client:abort-peer-never-closes', 'client:echo-unanswered',
                   'client:source-read-error',
                   'server:silent-after-connect', 'server:half-rq', 'server:never-closes-after-release',
                   'server:abort-never-closes', 'server:silent-after-ac', 'server:rejected-never-closes']
_orig_cases = cases


def cases(tier, seed):   # noqa: F811
    for c in _orig_cases(tier, seed):
        yield c
    reps = 3 if tier == 'quick' else 60
    for r in range(reps):
        for sc in ASSOC_SCENARIOS:
            yield dict(assoc=sc, seed=seed * 31 + r, convo='-', cut=None, ending=None, kill=None)
            if sc.startswith('server:'):
                # the same while other associations of the same entity come and go: what they
                # do to THEIR timers and tables must not keep this one alive
                yield dict(assoc=sc, traffic=True, seed=seed * 31 + r, convo='-', cut=None,
                           ending=None, kill=None)


_orig_run_case = run_case


def run_case(case):      # noqa: F811
    if case.get('assoc'):
        return _assoc_case(case)
    return _orig_run_case(case)


def _assoc_case(case):
    from pynetdicom2 import applicationentity, sopclass, exceptions
    sc = case['assoc']
    world = _SimWorld('c13a/%s/%s' % (case['seed'], sc), with_fs=True)
    sim = world.sim
    viol = []
    ADDR = ('peerhost', 104)
    TMO = 40.0 if case.get('traffic') else 15.0

    def v(rule, detail=''):
        viol.append({'sig': 'C13 %s scenario=%s%s' % (rule, sc,
                                                     ' with-other-associations' if case.get('traffic') else ''),
                     'detail': '%s\ncase %r\nblocked %r\nhandler errors %r' % (
                         detail, case, sim.blocked_report(), world.handler_errors[:1])})
    try:
        out = {}
        side, what = sc.split(':')
        if side == 'client':
            class Acc(_peers.ScriptedAcceptor):
                def serve(self):
                    while True:
                        p = self.read_pdu()
                        if p is None or p == 'timeout':
                            return
                        k = p['kind']
                        if k == 'P-DATA-TF':
                            for m in self.feed_pdata(p):
                                if what != 'echo-unanswered':
                                    self.send_message(m['pcid'], {
                                        0x0002: rc.VERIFICATION, 0x0100: 0x8030,
                                        0x0120: m['fields'].get(0x0110), 0x0800: 0x0101, 0x0900: 0})
                        elif k == 'A-RELEASE-RQ':
                            if what == 'release-unanswered':
                                continue
                            self.send(rc.enc_release_rp())
                            # never closes: just keeps the connection and reads
                        elif k == 'A-ABORT':
                            continue      # never closes
            reply = 'ac'
            if what == 'silent-after-connect':
                reply = 'silent'
            elif what == 'rj-never-closes':
                reply = 'rj'

            class Acc2(Acc):
                def wait_close(self):
                    # after sending the RJ: never close, never read EOF actively
                    self.sim.wait(lambda: False, 10000.0, 'peer-idle')
            world.serve_peer(ADDR, lambda sock: Acc2(sim, sock, reply=reply))
            cli = world.make_ae(applicationentity.ClientAE, 'CLI', [rc.IMPLICIT_LE], 16384)
            cli.timeout = TMO
            cli.add_scu(sopclass.verification_scu)
            if what == 'source-read-error':
                # the data set is sent from a file whose n-th read fails with EIO while the
                # provider thread is fragmenting it
                from .c15 import part10, make_ds
                import random as _r
                rr = _r.Random(case['seed'])
                CT_ = '1.2.840.10008.5.1.4.1.1.2'
                cli.max_pdu_length = 256
                cli.add_scu(sopclass.storage_scu, [CT_])
                ds_ = make_ds(rr, '1.2.3.4.5', CT_, 3000)
                world.fs.put('/src/big.dcm', part10(ds_, rc.IMPLICIT_LE))
                world.fs.fail_read_prefix = '/src/'
                world.fs.fail_read_at = 10 ** 9        # count reads, fail none yet
                world.watch_sends()

                def arm(rec):
                    # from now on the reads happen in the provider thread (lazy fragmenting)
                    if rec.is_file:
                        world.fs.fail_read_at = world.fs.nreads + 3 + case['seed'] % 5
                world.on_send = arm

            def user():
                t0 = sim.now
                try:
                    with cli.request_association({'aet': 'SRV', 'address': ADDR[0],
                                                  'port': ADDR[1]}) as assoc:
                        out['assoc'] = assoc
                        if what == 'abort-peer-never-closes':
                            assoc.abort(1)
                        elif what == 'echo-unanswered':
                            assoc.get_scu(rc.VERIFICATION)(1)
                        elif what == 'source-read-error':
                            assoc.get_scu('1.2.840.10008.5.1.4.1.1.2')('/src/big.dcm', 1)
                        else:
                            out['st'] = int(assoc.get_scu(rc.VERIFICATION)(1))
                except Exception as e:  # pylint: disable=broad-except
                    out['exc'] = e
                out['took'] = sim.now - t0
            ut = world.spawn(user, 'user')
            bound = 2 * TMO + ARTIM + 3.0
            world.run(tmax=bound + 60)
            if not ut.done:
                v('user-call-never-returns', 'blocked at %s' % ut.kind)
            elif out.get('took', 0) > bound:
                v('user-call-exceeds-bound', 'took %.1f s (bound %.1f)' % (out['took'], bound))
            # give ARTIM a chance, then look at what is left
            sim.run_for(ARTIM + 2.0)
        else:
            services = []

            class Srv(applicationentity.AE):
                def on_association_request(self, asce, assoc):
                    if what == 'rejected-never-closes':
                        raise exceptions.AssociationRejectedError(1, 1, 1)
            srv = world.make_ae(Srv, 'SRV', 11112, [rc.IMPLICIT_LE], 16384)
            srv.timeout = TMO
            srv.add_scp(sopclass.verification_scp)
            world.serve_ae(srv, ADDR)

            def script(peer):
                if what == 'silent-after-connect':
                    peer.sock.connect(ADDR)
                    sim.wait(lambda: False, 10000.0, 'peer-idle')
                    return
                if what == 'half-rq':
                    peer.sock.connect(ADDR)
                    rq = rc.enc_assoc_rq(contexts=((1, rc.VERIFICATION, (rc.IMPLICIT_LE,)),))
                    peer.send(rq[:30])
                    sim.wait(lambda: False, 10000.0, 'peer-idle')
                    return
                p = peer.associate()
                if what in ('silent-after-ac', 'rejected-never-closes'):
                    sim.wait(lambda: False, 10000.0, 'peer-idle')
                    return
                peer.send_message(1, {0x0002: rc.VERIFICATION, 0x0100: 0x0030, 0x0110: 1,
                                      0x0800: 0x0101})
                peer.read_message(timeout=30.0)
                if what == 'never-closes-after-release':
                    peer.send(rc.enc_release_rq())
                    peer.read_pdu(timeout=30.0)
                else:
                    peer.send(rc.enc_abort(0, 0))
                sim.wait(lambda: False, 10000.0, 'peer-idle')
            peer = _peers.ScriptedRequestor(sim, world.net, ADDR,
                                            ((1, rc.VERIFICATION, (rc.IMPLICIT_LE,)),),
                                            script=script)
            peer.run_orig = peer.run

            def run_noclose():
                try:
                    peer.script(peer)
                except _peers.PeerClosed:
                    pass
            world.spawn(run_noclose, 'peer', role='peer')
            if case.get('traffic'):
                def visitor(delay, mid):
                    def script_v(pv):
                        sim.sleep(delay)
                        q = pv.associate()
                        if isinstance(q, dict) and q['kind'] == 'A-ASSOCIATE-AC':
                            pv.send_message(1, {0x0002: rc.VERIFICATION, 0x0100: 0x0030,
                                                0x0110: mid, 0x0800: 0x0101})
                            pv.read_message(timeout=30.0)
                            pv.release()
                    pv = _peers.ScriptedRequestor(sim, world.net, ADDR,
                                                  ((1, rc.VERIFICATION, (rc.IMPLICIT_LE,)),),
                                                  script=script_v)
                    world.spawn(pv.run, 'visitor%d' % mid, role='peer')
                visitor(2.0 + (case['seed'] % 3), 21)
                visitor(5.0 + (case['seed'] % 4), 22)
            bound = 2 * TMO + ARTIM + 3.0
            if what != 'silent-after-ac':
                # where the standard arms ARTIM it is ARTIM that ends the waiting, not the
                # (longer) time-out of the application layer
                sim.run_for(ARTIM + 8.0)
                first = [s_ for s_ in world.net.sockets if s_.name.startswith('srv')]
                if not first:
                    v('connection-never-handled')
                elif not first[0].closed:
                    v('artim-did-not-end-the-waiting',
                      'ARTIM is %.0f s; %.0f s after the connection the library still holds it'
                      % (ARTIM, ARTIM + 8.0))
                sim.run_for(bound - ARTIM - 8.0)
            else:
                sim.run_for(bound)
            acc = world.acceptor_tasks
            if not acc:
                v('connection-never-handled')
            elif not all(t.done for t in acc):
                v('handler-thread-still-running-after-bound',
                  'blocked at %r' % [t.kind for t in acc if not t.done])
        # common: no provider thread left running, no library-side socket left open
        duls = [t for t in sim.tasks if t.role == 'dul']
        crashed = [t for t in duls if t.exc is not None]
        if crashed and what == 'source-read-error' and isinstance(crashed[0].exc, OSError):
            crashed = []     # the local read fault ends this provider; what matters is the rest
        if crashed:
            v('provider-died exc=%s' % type(crashed[0].exc).__name__, crashed[0].tb)
        alive = [t for t in duls if not t.done]
        if alive:
            v('provider-thread-still-running', 'blocked at %r' % [t.kind for t in alive])
        lib_socks = [s for s in world.net.sockets
                     if s.connected and not s.closed and s.name.startswith(
                         'sock' if side == 'client' else 'srv')]
        if lib_socks:
            v('connection-left-open', 'library-side sockets still open: %r' % lib_socks)
        st = dict(sim.stats)
        st['fault.peer_silence'] = 1
        return {'violations': viol, 'stats': st, 'digest': sim.digest.hexdigest(),
                'sched_sig': 'assoc/%s/%s' % (sc, case['seed']), 'steps': sim.steps,
                'vsecs': sim.now - 1000.0, 'nontrivial': True,
                'sample': {'case': case, 'took': out.get('took'), 'exc': repr(out.get('exc'))}}
    finally:
        world.close()
