"""C16 -- C-FIND returns exactly the matches the SCP produced, in order, then stops.
Real qr_find_scp / modality_work_list_scp on a real AE and real qr_find_scu /
modality_work_list_scu / c_find on a real ClientAE, all threads under the simulated scheduler;
a scripted SCP supplies the final statuses the real provider never produces."""
import random

from .. import refcodec as rc, peers
from ..world import SimWorld
from .c15 import enc

PROPERTY = 'C16'
LEVEL = 'exploration'
BUDGET = {'quick': 55, 'thorough': 900}
CHUNK = 4
EXHAUSTIVE = {'quick': False, 'thorough': False}
ADDR = ('srvhost', 11112)
PFIND = '1.2.840.10008.5.1.4.1.2.1.1'
SFIND = '1.2.840.10008.5.1.4.1.2.2.1'
MWL = '1.2.840.10008.5.1.4.31'
TSS = {'ile': rc.IMPLICIT_LE, 'ele': rc.EXPLICIT_LE, 'ebe': rc.EXPLICIT_BE}
RULE = ('cases = match sequence of length 0..8 (seeded data sets, any mix of FF00/FF01) x query '
        'data set x transfer syntax x maximum lengths down to 40 (multi-fragment responses) x '
        'handler timing {instant, delayed} x variant {patient root, study root, worklist, c_find '
        'wrapper} x final status {success from the real SCP; failure / cancel / warning from a '
        'scripted SCP} x schedule {uniform; user thread far ahead of its provider thread; '
        'stalls}; non-trivial = >= 2 matches; distinct = distinct scheduler signatures'
        '; hot family (concurrent query users, pre-emption in the encoders); 25 % with a file-backed C-STORE before the query; 30 % with a handler that re-yields one data set object; pipelined family: a second query sent while the responses to the first stream in')
ASSUMPTIONS = ['data sets compared by their implicit-VR-LE re-encoding (pydicom trusted for data '
               'sets)', 'stalls capped below the library\'s own timeouts']


def cases(tier, seed):
    rnd = random.Random('c16/%d' % seed)
    n = 2500 if tier == 'quick' else 120000
    for i in range(n):
        yield dict(n=rnd.choice([0, 1, 2, 3, 4, 5, 8]), ts=rnd.choice(sorted(TSS)),
                   smax=rnd.choice([40, 64, 128, 16384]), cmax=rnd.choice([40, 128, 16384]),
                   variant=rnd.choice(['patient', 'study', 'mwl', 'c_find']),
                   delay=rnd.choice([0, 0, 0.02, 0.3]),
                   final=rnd.choice(['real', 'real', 'real', 'failure', 'cancel', 'warning']),
                   sched=rnd.choice(['uniform', 'user-ahead', 'stall']), align=rnd.random() < 0.35,
                   others=rnd.choice([0, 0, 1, 2]), fine=rnd.random() < 0.4,
                   pre_store=rnd.random() < 0.25, reuse=rnd.random() < 0.3,
                   again=rnd.choice([None, None, None, 7.0, 20.0]),
                   # dup_ctx: the query class is negotiated on two contexts with transfer
                   # syntaxes of different byte order; the query goes over the first
                   dup_ctx=rnd.random() < 0.15,
                   seed=seed * 100003 + i)


_cases_base = cases


def cases(tier, seed):   # noqa: F811
    # several query users at once on one server AE, with line-level pre-emption concentrated
    # in the data-set encode/decode helpers every association goes through
    rnd = random.Random('c16h/%d' % seed)
    for i in range(300 if tier == 'quick' else 12000):
        yield dict(n=rnd.choice([2, 3, 5]), ts=rnd.choice(sorted(TSS)), smax=16384, cmax=16384,
                   variant=rnd.choice(['patient', 'study', 'mwl']), delay=0, final='real',
                   sched='uniform', align=False, others=rnd.choice([2, 3]), fine=True, hot=True,
                   seed=seed * 100019 + i)
    # pipelined: the user makes a second query on the same association while the responses to
    # the first are still streaming in (request travelling against the stream of responses,
    # multi-fragment on both sides): both queries get exactly what was produced, in order
    rp = random.Random('c16p/%d' % seed)
    for i in range(160 if tier == 'quick' else 6000):
        yield dict(n=rp.choice([2, 3, 5, 8]), ts=rp.choice(sorted(TSS)),
                   smax=rp.choice([40, 64, 128, 512]), cmax=rp.choice([40, 128, 16384]),
                   variant=rp.choice(['patient', 'study', 'mwl']), delay=0, final='real',
                   sched=rp.choice(['uniform', 'user-ahead']), align=False, others=0, fine=False,
                   pipelined=True, seed=seed * 100057 + i)
    # (the bulk comes last so that a wall-clock budget cut never drops the families above)
    for c in _cases_base(tier, seed):
        yield c


CT_STORE = '1.2.840.10008.5.1.4.1.1.2'


def _ds(rnd, k):
    import pydicom
    ds = pydicom.Dataset()
    ds.PatientName = 'MATCH^%d^%s' % (k, 'x' * rnd.randint(0, 40))
    ds.PatientID = 'ID%d' % rnd.randrange(10 ** 6)
    if rnd.random() < 0.4:
        it = pydicom.Dataset()
        it.CodeValue = 'c%d' % k
        ds.ProcedureCodeSequence = pydicom.Sequence([it])
    return ds


def run_case(case):
    from pynetdicom2 import applicationentity, sopclass
    import pynetdicom2
    import pydicom
    rnd = random.Random('c16r/%s' % case['seed'])
    pre_store = bool(case.get('pre_store')) and case['final'] == 'real' and \
        case['variant'] != 'c_find'
    world = SimWorld('c16/%s' % case['seed'], policy='random', with_fs=pre_store)
    viol = []
    ts = TSS[case['ts']]
    variant = case['variant']
    sop = {'patient': PFIND, 'study': SFIND, 'mwl': MWL, 'c_find': PFIND}[variant]
    if variant == 'c_find':
        ts = rc.IMPLICIT_LE      # the wrapper builds its own ClientAE with default syntaxes

    def v(rule, detail):
        viol.append({'sig': 'C16 %s variant=%s' % (rule, variant),
                     'detail': '%s\ncase %r\nhandler errors %r' % (detail, case,
                                                                   world.handler_errors[:1])})
    try:
        matches = [(_ds(rnd, k), rnd.choice([0xFF00, 0xFF01])) for k in range(case['n'])]
        if case.get('align'):
            # encoded length an exact multiple of the fragment payload of the sending side
            frag = (min(case['smax'], case['cmax']) if variant != 'c_find' else case['smax']) - 6
            for d, _ in matches:
                if rnd.random() < 0.6:
                    base = len(enc(d, ts))
                    delta = (-base) % frag
                    if delta % 2 == 0:
                        d.PatientID = str(d.PatientID) + 'z' * delta
        query = pydicom.Dataset()
        query.PatientName = 'Q*%d' % rnd.randrange(1000)
        query.PatientID = ''
        seen_queries = []
        final_code = {'real': 0x0000, 'failure': 0xA700, 'cancel': 0xFE00, 'warning': 0xB000}[
            case['final']]
        if case['final'] == 'real':
            class Srv(applicationentity.AE):
                def on_receive_find(self, context, ds):
                    if str(ds.PatientName).startswith('OTHER'):
                        k = int(str(ds.PatientID))
                        tag = str(ds.PatientName)

                        def ogen():
                            for j in range(k):
                                d = pydicom.Dataset()
                                d.PatientName = '%s/%d' % (tag, j)
                                d.PatientID = 'o' * (j * 7)
                                yield d, 0xFF00
                        return ogen()
                    seen_queries.append(enc(ds, rc.IMPLICIT_LE))

                    def gen():
                        # reuse: the application refills ONE data set object per match and
                        # yields it again; what counts is its content at the time of the yield
                        row = pydicom.Dataset()
                        for d, st in matches:
                            if case['delay']:
                                world.sim.sleep(case['delay'])
                            if case.get('reuse'):
                                row.clear()
                                row.update(d)
                                yield row, st
                            else:
                                yield d, st
                        row.clear()
                    return gen()
            # with other query users around, the provider speaks all three syntaxes and every
            # other user negotiates a different one than ours (same context id, other byte
            # order): what is negotiated on one association must stay there
            all_ts = [TSS[k_] for k_ in sorted(TSS)]
            dup = bool(case.get('dup_ctx')) and variant != 'c_find' and not pre_store
            srv_ts = ([ts] if not (case.get('others') or dup) else all_ts) \
                if variant != 'c_find' else None
            srv = world.make_ae(Srv, 'SRV', 11112, srv_ts, case['smax'])
            srv.timeout = 300
            srv.add_scp(sopclass.qr_find_scp).add_scp(sopclass.modality_work_list_scp)
            if pre_store:
                # the same association first carries a C-STORE that is received into a file:
                # nothing of that message may linger when the query (in memory) arrives
                def store2(asce, ctx, msg):
                    return sopclass.storage_scp(asce, ctx, msg)
                store2.sop_classes = [CT_STORE]
                store2.store_in_file = True
                srv.add_scp(store2)
                srv.on_receive_store = lambda context, ds: 0
            world.serve_ae(srv, ADDR)
        else:
            def on_message(peer, m):
                if m['fields'].get(0x0100) != 0x0020:
                    return
                seen_queries.append(m['data'])
                neg = [c for c in peer.results if c[0] == m['pcid']][0][2]
                for d, st in matches:
                    peer.send_message(m['pcid'], {0x0002: sop, 0x0100: 0x8020,
                                                  0x0120: m['fields'].get(0x0110), 0x0800: 1,
                                                  0x0900: st}, enc(d, neg))
                peer.send_message(m['pcid'], {0x0002: sop, 0x0100: 0x8020,
                                              0x0120: m['fields'].get(0x0110), 0x0800: 0x0101,
                                              0x0900: final_code})

            def accept(contexts):
                return [(pcid, 0, (ts if ts in tss else tss[0])) for pcid, ab, tss in contexts]
            world.serve_peer(ADDR, lambda sock: peers.ScriptedAcceptor(
                world.sim, sock, accept=accept, max_length=case['smax'], on_message=on_message))
        got = []
        got2 = []
        again = case.get('again') if (case['final'] == 'real' and variant != 'c_find'
                                     and not case['delay'] and case['sched'] != 'stall') else None
        if case.get('dup_ctx') and case['final'] == 'real' and not pre_store and \
                variant != 'c_find' and not case.get('pipelined'):
            again = None            # (one query, over the first of the two contexts)
        out = {}
        remote = {'aet': 'SRV', 'address': ADDR[0], 'port': ADDR[1]}

        def user():
            try:
                if variant == 'c_find':
                    for d, st in pynetdicom2.c_find(remote, 'CLI', query, PFIND):
                        got.append((d, st))
                else:
                    cli = world.make_ae(applicationentity.ClientAE, 'CLI', [ts], case['cmax'])
                    cli.timeout = 300 if not again else 4.0
                    cli.add_scu(sopclass.qr_find_scu).add_scu(sopclass.modality_work_list_scu)
                    if pre_store:
                        cli.add_scu(sopclass.storage_scu, [CT_STORE])
                    first_ctx = None
                    if case.get('dup_ctx') and case['final'] == 'real' and not pre_store:
                        from pynetdicom2 import asceprovider as _ap
                        cid = [k for k, c_ in cli.context_def_list.items()
                               if c_.sop_class == sop][0]
                        other_ts = rc.IMPLICIT_LE if ts == rc.EXPLICIT_BE else rc.EXPLICIT_BE
                        nxt = max(cli.context_def_list) + 2
                        cli.context_def_list[cid] = _ap.PContextDef(cid, sop, [ts])
                        cli.context_def_list[nxt] = _ap.PContextDef(nxt, sop, [other_ts])
                        first_ctx = cid
                    with cli.request_association(remote) as assoc:
                        if first_ctx is not None and first_ctx in assoc.accepted_contexts and \
                                not case.get('pipelined'):
                            world.sim.bump('probe.query_over_first_of_two_contexts')
                            svc = cli.supported_scu[sop]
                            for d, st in svc(assoc, assoc.accepted_contexts[first_ctx], query, 7):
                                got.append((d, st))
                            out['done'] = True
                            return
                        if pre_store:
                            inst = pydicom.Dataset()
                            inst.SOPClassUID = CT_STORE
                            inst.SOPInstanceUID = '1.2.826.0.1.16.%d' % (case['seed'] % 100000)
                            inst.PatientName = 'STORED' + 'x' * (case['seed'] % 300)
                            out['store_status'] = int(assoc.get_scu(CT_STORE)(inst, 5))
                        if case.get('pipelined'):
                            g1 = assoc.get_scu(sop)(query, 7)
                            got.append(next(g1))            # first response of query 1 is in
                            g2 = assoc.get_scu(sop)(query, 9)
                            # sends query 2; what it then takes from the association is the
                            # next response to query 1 (the provider answers in order)
                            got.append(next(g2))
                            for d, st in g1:
                                got.append((d, st))
                            for d, st in g2:
                                got2.append((d, st))
                        else:
                            for d, st in assoc.get_scu(sop)(query, 7):
                                got.append((d, st))
                        if again:
                            # the association then sits idle for longer than the user's
                            # time-out before the same query is made once more
                            world.sim.sleep(again)
                            for d, st in assoc.get_scu(sop)(query, 9):
                                got2.append((d, st))
                out['done'] = True
            except Exception as e:  # pylint: disable=broad-except
                import traceback
                out['exc'] = e
                out['tb'] = traceback.format_exc()
        # (installed before any simulated thread starts: a thread is traced from its start)
        pre = None
        if case.get('fine'):
            from .. import preempt
            if case.get('hot'):
                pre = preempt.Preempter(world.sim, prob=0.5, park_prob=0.15, park_max=0.05,
                                        funcs={'encode', 'decode', 'encode_element'},
                                        files=('dsutils.py',))
            else:
                pre = preempt.Preempter(world.sim, prob=0.15,
                                        funcs=preempt.DEFAULT_FUNCS | {'decode', 'encode_element',
                                                                       'qr_find_scp', 'qr_find_scu'})
            pre.install()
        ut = world.spawn(user, 'user')
        others = {}
        n_others = case.get('others', 0) if case['final'] == 'real' else 0

        def other(i):
            # further query users on the same server AE at the same time: their provider
            # loops encode and send concurrently with ours
            try:
                all_ts_ = [TSS[k_] for k_ in sorted(TSS)]
                other_ts = all_ts_[(all_ts_.index(ts) + 1 + i) % len(all_ts_)] \
                    if ts in all_ts_ else ts
                oc = world.make_ae(applicationentity.ClientAE, 'OTH%d' % i,
                                   [other_ts] if variant != 'c_find' else None, 16384)
                oc.timeout = 300
                oc.add_scu(sopclass.qr_find_scu)
                q = pydicom.Dataset()
                q.PatientName = 'OTHER%d' % i
                k = 2 + i
                q.PatientID = str(k)
                with oc.request_association(remote) as assoc:
                    res = [(str(d.PatientName) if d is not None else None, int(st))
                           for d, st in assoc.get_scu(PFIND)(q, 3)]
                others[i] = (res, [('OTHER%d/%d' % (i, j), 0xFF00) for j in range(k)] + [(None, 0)])
            except Exception as e:  # pylint: disable=broad-except
                others[i] = ('exc', repr(e))
        for i in range(n_others):
            world.spawn(lambda i=i: other(i), 'other%d' % i)
        if case['sched'] == 'user-ahead':
            # bias: whenever a user/acceptor thread is runnable, prefer it over provider threads
            sim = world.sim
            orig_choose = sim.choose

            def choose(stream, n, tag=''):
                if stream == 'schedule' and tag == 'sched' and sim.rng('bias').random() < 0.8:
                    ready = sim._ready_tasks()
                    for i, t in enumerate(ready):
                        if t.role in ('user', 'acceptor'):
                            sim.trace.append(i)
                            return i
                return orig_choose(stream, n, tag)
            sim.choose = choose
        elif case['sched'] == 'stall':
            from .. import sched
            k = rnd.randint(30, 300)

            def do_stall():
                duls = [x for x in world.sim.tasks if x.role == 'dul' and not x.done]
                if duls:
                    world.sim.stall(rnd.choice(duls), rnd.choice([0.1, 0.5, 0.9]))
            world.sim.actors.append(sched.Trigger('stall', lambda: world.sim.steps >= k, do_stall))
        world.run(tmax=2000)
        world.drain(3.0)
        if pre is not None:
            pre.uninstall()
        for i, o in sorted(others.items()):
            if o[0] == 'exc':
                v('concurrent-query-user-failed', o[1])
            elif o[0] != o[1]:
                v('concurrent-query-results-differ', 'user %d got %r want %r' % (i, o[0], o[1]))
        if 'exc' in out:
            v('query-user-failed exc=%s' % type(out['exc']).__name__, out.get('tb', ''))
        else:
            want = [(enc(d, rc.IMPLICIT_LE), st) for d, st in matches] + [(None, final_code)]
            have = [(enc(d, rc.IMPLICIT_LE) if d is not None else None, int(st)) for d, st in got]
            if have != want:
                kind = 'count' if len(have) != len(want) else (
                    'order-or-content' if sorted(map(repr, have)) != sorted(map(repr, want))
                    or True else '')
                if len(have) == len(want):
                    if [s for _, s in have] != [s for _, s in want]:
                        kind = 'statuses'
                    elif sorted(repr(d) for d, _ in have) == sorted(repr(d) for d, _ in want):
                        kind = 'order'
                    else:
                        kind = 'content'
                v('results-differ-from-produced kind=%s' % kind,
                  'produced %r\nreceived %r' % ([(_pn(d), '%04x' % s) for d, s in want],
                                                [(_pn(d), '%04x' % s) for d, s in have]))
            if got and got[-1][1].is_pending:
                v('iteration-ended-on-pending-status', repr(int(got[-1][1])))
            if case.get('pipelined'):
                have2 = [(enc(d, rc.IMPLICIT_LE) if d is not None else None, int(st))
                         for d, st in got2]
                if have2 != want:
                    v('pipelined-second-query-differs',
                      'produced %d results, received %r' % (
                          len(want), [(_pn(d), '%04x' % s) for d, s in have2]))
            if again:
                have2 = [(enc(d, rc.IMPLICIT_LE) if d is not None else None, int(st))
                         for d, st in got2]
                if have2 != want:
                    v('second-query-after-an-idle-pause-differs',
                      'idle for %.0f s (user time-out 4 s); produced %d results, received %r' % (
                          again, len(want), [(_pn(d), '%04x' % s) for d, s in have2]))
        if seen_queries and seen_queries[0] is not None:
            qwant = enc(query, rc.IMPLICIT_LE if case['final'] == 'real' else ts)
            if seen_queries[0] != qwant or len(seen_queries) != (2 if (again or case.get('pipelined')) else 1):
                v('query-changed-on-the-way', 'handler saw %r (x%d), sent %r' % (
                    seen_queries[0][:40], len(seen_queries), qwant[:40]))
        elif 'exc' not in out:
            v('query-never-reached-the-provider', '')
        dead = [x for x in world.sim.tasks if x.role == 'dul' and x.exc is not None]
        if dead:
            v('provider-died exc=%s' % type(dead[0].exc).__name__, dead[0].tb)
        sim = world.sim
        seen, uniq = set(), []
        for x in viol:
            if x['sig'] not in seen:
                seen.add(x['sig'])
                uniq.append(x)
        return {'violations': uniq, 'stats': dict(sim.stats), 'digest': sim.digest.hexdigest(),
                'sched_sig': sim.sched_sig.hexdigest(), 'steps': sim.steps,
                'vsecs': sim.now - 1000.0, 'nontrivial': case['n'] >= 2,
                'sample': {'case': case, 'received': len(got)}}
    finally:
        try:
            import threading as _t
            _t.settrace(None)
        except Exception:  # pylint: disable=broad-except
            pass
        world.close()


def _pn(b):
    if b is None:
        return None
    i = b.find(b'MATCH')
    return b[i:i + 9].decode('ascii', 'replace') if i >= 0 else b[:8]
