"""C05 -- the running provider equals the PS3.8 protocol machine over every event history.

Quiescent mode: one event, settle, compare with R-fsm (+ R-dimse) step by step.
Concurrent mode: several events injected before quiescence; per-channel outputs must equal
R-fsm's outputs for SOME causally consistent serialisation of the injected events.
"""
import itertools
import random

from .. import refcodec as rc, refmodel as rm, prims
from ..rig import Rig

PROPERTY = 'C05'
LEVEL = 'exploration'
BUDGET = {'quick': 55, 'thorough': 1200}
CHUNK = 16
EXHAUSTIVE = {'quick': False, 'thorough': False}
RULE = ('histories over {peer PDU of each type, complete/partial/continuation P-DATA, unrecognised '
        'PDU type, peer FIN, ARTIM expiry, non-expiring advance, every user primitive legal in the '
        'model state, DIMSE generator primitive}; both roles; exhaustive to a depth bound after '
        'each canonical prefix, seeded random walks beyond; quiescent stepping against R-fsm plus '
        'a concurrent mode with merge search; non-trivial = history reaches Sta6 or beyond or '
        'contains a non-happy-path cell; distinct = distinct event sequences'
        "; families: write faults, prestart bursts, PDUs+FIN bursts, causal (peer's abort/close arrives while a 10-fragment message is produced)")
ASSUMPTIONS = ['R-fsm transcribed from PS3.8 Table 9-10', 'quiescence = 3 select periods without '
               'observable change (DESIGN 2.3)', 'ARTIM deadlines are never approached closer '
               'than 1 s by a non-expiring step (ordering near the deadline is not judged)']

ARTIM = 10.0
PEER_EVENTS = ['p:rq', 'p:ac', 'p:rj', 'p:data', 'p:data2', 'p:part', 'p:relrq', 'p:relrp',
               'p:abort', 'p:abort2', 'p:unk', 'p:unk0', 'p:garb', 'p:trunc', 'p:badpd']
USER_LEGAL = {
    'Sta3': ['u:ac', 'u:rj', 'u:rj2', 'u:abort'],
    'Sta5': ['u:abort'],
    'Sta6': ['u:data', 'u:data2', 'u:gen', 'u:relrq', 'u:abort', 'u:abort2'],
    'Sta7': ['u:abort'],
    'Sta8': ['u:data', 'u:gen', 'u:relrp', 'u:abort'],
    'Sta9': ['u:relrp', 'u:abort'],
    'Sta10': ['u:abort'],
    'Sta11': ['u:abort'],
    'Sta12': ['u:relrp', 'u:abort'],
}
PREFIXES = {
    'acceptor': [[], ['p:rq'], ['p:rq', 'u:ac'], ['p:rq', 'u:ac', 'u:relrq'],
                 ['p:rq', 'u:ac', 'p:relrq'], ['p:rq', 'u:ac', 'p:relrq', 'u:relrp'],
                 ['p:rq', 'u:rj'], ['p:rq', 'u:ac', 'u:relrq', 'p:relrq'],
                 ['p:rq', 'u:ac', 'u:relrq', 'p:relrq', 'p:relrp'], ['p:rq', 'u:ac', 'p:part'],
                 ['p:rq', 'u:ac', 'u:abort']],
    'requestor': [['u:assoc'], ['u:assoc', 'p:ac'], ['u:assoc', 'p:ac', 'u:relrq'],
                  ['u:assoc', 'p:ac', 'p:relrq'], ['u:assoc', 'p:ac', 'u:relrq', 'p:relrq'],
                  ['u:assoc', 'p:ac', 'u:relrq', 'p:relrq', 'u:relrp'],
                  ['u:assoc', 'p:ac', 'p:relrq', 'u:relrp'], ['u:assoc', 'p:ac', 'p:part']],
}


class Model(object):
    """Reference provider: R-fsm + R-dimse + transport/ARTIM bookkeeping."""

    def __init__(self, role):
        self.requestor = role == 'requestor'
        self.state = 'Sta1' if self.requestor else 'Sta2'
        self.sock_open = not self.requestor        # a transport connection exists
        self.artim = not self.requestor            # AE-5 has run in the acceptor role
        self.artim_start = None                    # filled by the driver with virtual time
        self.peer_fin = False
        self.reasm = rc.Reassembler()
        self.partial = False
        self.started = not self.requestor
        self.over = False                          # association ended (no more indications)
        self.cells = []

    def clone(self):
        m = Model.__new__(Model)
        m.__dict__.update(self.__dict__)
        m.reasm = rc.Reassembler()
        m.reasm.__dict__.update({k: (list(v) if isinstance(v, list) else v)
                                 for k, v in self.reasm.__dict__.items()})
        m.cells = list(self.cells)
        return m

    # ---- which events can the environment produce now
    def enabled(self, now=None):
        ev = []
        if self.requestor and not self.started:
            return ['u:assoc']
        if self.sock_open and not self.peer_fin:
            for e in PEER_EVENTS:
                if e == 'p:part' and self.partial:
                    continue
                if e in ('p:data', 'p:data2') and self.partial:
                    continue
                ev.append(e)
            if self.partial:
                ev.append('p:rest')
            ev.append('p:fin')
        ev += USER_LEGAL.get(self.state, [])
        ev += ['t:expire', 't:small']
        return ev

    # ---- apply one event; returns expectation dict
    def apply(self, ev, now):
        exp = {'wire': [], 'user': [], 'ev': ev}
        kind, name = ev.split(':')
        if kind == 't':
            if name == 'expire' and self.artim:
                self._fsm('Evt18', exp, None, None)
            return exp
        if kind == 'p':
            if name == 'fin':
                self.peer_fin = True
                if self.sock_open:
                    self._fsm('Evt17', exp, None, None)
                    self.sock_open = False
                return exp
            raw = prims.PEER[name]
            if not self.sock_open:
                return exp
            evt = prims.PEER_EVENT[name]
            if name == 'garb' and self.state in ('Sta6', 'Sta7'):
                evt = 'Evt19'      # undecodable DIMSE content where P-DATA is acted upon
            self._fsm(evt, exp, raw, name)
            return exp
        # user primitive
        if name == 'gen':
            _, raws = prims.gen_primitive(3)
            for r in raws:
                self._fsm('Evt9', exp, r, 'gen')
            return exp
        if name.startswith('gen#'):
            # one fragment of the generator primitive (concurrent mode: fragments are separate
            # P-DATA requests that other events may interleave with)
            _, raws = prims.gen_primitive(3)
            self._fsm('Evt9', exp, raws[int(name[4:])], 'gen')
            return exp
        evt, _, raw = prims.USER[name]
        self.started = True
        self._fsm(evt, exp, raw, name)
        return exp

    def _fsm(self, evt, exp, raw, name):
        eff = rm.effects(self.state, evt, self.requestor)
        self.cells.append((self.state, evt))
        if eff is None:
            exp.setdefault('undefined', []).append((self.state, evt))
            return
        w = eff['wire']
        if w == 'connect':
            self.sock_open = True
            # the library runs AE-2 right after (Evt2 is generated internally)
            self.state = 'Sta4'
            eff2 = rm.effects('Sta4', 'Evt2', self.requestor)
            self.cells.append(('Sta4', 'Evt2'))
            exp['wire'].append(('raw', raw))
            self.state = eff2['next']
            return
        if w == 'primitive':
            exp['wire'].append(('raw', raw))
        elif w in ('A-RELEASE-RQ', 'A-RELEASE-RP'):
            exp['wire'].append(('kind', w))
        elif w == 'A-ABORT':
            if evt == 'Evt15':
                exp['wire'].append(('raw', raw))
            else:
                exp['wire'].append(('kind', 'A-ABORT'))
        elif w == 'A-ABORT-provider':
            exp['wire'].append(('abort-src', 2))
        u = eff['user']
        if u == 'pdu':
            exp['user'].append(('pdu', raw))
        elif u == 'p-abort':
            exp['user'].append(('p-abort',))
        elif u == 'pdata':
            p = rc.parse_pdu(raw)
            for pdv in p['pdvs']:
                m = self.reasm.feed(pdv)
                if m is not None:
                    exp['user'].append(('dimse', m))
            self.partial = not self.reasm.idle()
        if eff['close']:
            self.sock_open = False
        self.artim = rm.artim_after(self.artim, eff['artim'])
        if eff['artim'] in ('start', 'restart'):
            self.artim_start = None    # driver stamps it
        self.state = eff['next']
        if self.state in ('Sta1', 'Sta13'):
            self.partial = False


def _match_wire(exp, pdu):
    if pdu['kind'] == 'MALFORMED':
        return False
    if exp[0] == 'raw':
        return rc.summarize(pdu) == rc.summarize(rc.parse_pdu(exp[1]))
    if exp[0] == 'kind':
        return pdu['kind'] == exp[1]
    if exp[0] == 'abort-src':
        return pdu['kind'] == 'A-ABORT' and pdu['source'] == exp[1]
    return False


def _match_user(exp, item):
    if exp[0] == 'p-abort':
        return getattr(item, 'pdu_type', None) == 7
    if exp[0] == 'pdu':
        ref = rc.parse_pdu(exp[1])
        t = getattr(item, 'pdu_type', None)
        if t != ref['type']:
            return False
        if t == 3:
            return (item.result, item.source, item.reason_diag) == (ref['result'], ref['source'],
                                                                     ref['reason'])
        if t == 7:
            return (item.source, item.reason_diag) == (ref['source'], ref['reason'])
        if t in (1, 2):
            try:
                back = rc.parse_pdu(item.encode())
            except Exception:  # pylint: disable=broad-except
                return False
            return rc.summarize(back) == rc.summarize(ref)
        return True
    if exp[0] == 'dimse':
        if not isinstance(item, tuple):
            return False
        msg, pcid = item
        m = exp[1]
        if pcid != m['pcid']:
            return False
        f = m['fields']
        cs = msg.command_set
        if getattr(cs, 'CommandField', None) != f.get(0x0100):
            return False
        if getattr(cs, 'MessageID', None) != f.get(0x0110):
            return False
        return True
    return False


def _describe_user(item):
    if isinstance(item, tuple):
        return 'DIMSE:%s' % type(item[0]).__name__
    t = getattr(item, 'pdu_type', None)
    return rc.PDU_NAMES.get(t, type(item).__name__)


class Driver(object):
    """Plays events on a Rig and keeps the model in step."""

    def __init__(self, role, seed, rig=None, prebuffer=b'', fin_at_start=False, settle=True):
        self.rig = rig if rig is not None else Rig(seed, role=role, prebuffer=prebuffer)
        self.model = Model(role)
        self.role = role
        self.history = []
        self.states = set()
        self.deadline = None
        if fin_at_start:
            self.rig.peer_fin()
        if settle:
            self.rig.settle()
        if role == 'acceptor':
            self.deadline = self.rig.sim.now + ARTIM
        self.rig.wire_take()

    def inject(self, ev):
        rig = self.rig
        kind, name = ev.split(':')
        if kind == 'p':
            if name == 'fin':
                rig.peer_fin()
            else:
                rig.peer_bytes(prims.PEER[name])
        elif kind == 'u':
            if name == 'gen':
                g, _ = prims.gen_primitive(3)
                rig.user(g)
            else:
                rig.user(prims.USER[name][1]())

    def pre_time(self, ev):
        """Keep clear of the ARTIM deadline; returns an event to run first, or None."""
        now = self.rig.sim.now
        if self.model.artim and self.deadline is not None and ev != 't:expire':
            if self.deadline - now < 1.5:
                return 't:expire'
        return None

    def step(self, ev):
        """Execute one event in quiescent mode; returns a list of mismatch strings."""
        rig, model = self.rig, self.model
        pre = self.pre_time(ev)
        if pre is not None:
            bad = self._do(pre)
            if bad:
                return bad
            if ev not in model.enabled():
                return []
        return self._do(ev)

    def _do(self, ev):
        rig, model = self.rig, self.model
        self.history.append(ev)
        was_artim = model.artim
        state0 = model.state
        if ev == 't:expire':
            if model.artim and self.deadline is not None:
                rig.advance(max(0.0, self.deadline - rig.sim.now) + 1.0)
            else:
                rig.advance(ARTIM + 1.0)
        elif ev == 't:small':
            dt = 2.0
            if model.artim and self.deadline is not None:
                dt = min(dt, self.deadline - rig.sim.now - 1.2)
            if dt > 0:
                rig.advance(dt)
        else:
            self.inject(ev)
        t_inj = rig.sim.now
        settled = rig.settle()
        exp = model.apply(ev, t_inj)
        if model.artim and (not was_artim or model.artim_start is None):
            model.artim_start = t_inj
            self.deadline = t_inj + ARTIM
        if not model.artim:
            self.deadline = None
        return self.compare(exp, settled, state0)

    def compare(self, exp, settled, state0):
        rig, model = self.rig, self.model
        bad = []
        ev = exp['ev']
        cell = '(%s,%s)' % (state0, ev)
        if rig.loop_dead():
            exc = type(rig.task.exc).__name__ if rig.task.exc else 'returned'
            return ['loop-died cell=%s exc=%s at=%s' % (cell, exc, _where(rig.task.tb))]
        if not settled:
            bad.append('not-quiescent cell=%s blocked=%s' % (cell, rig.task.kind))
        wire = rig.wire_take()
        pdus, rem = rc.parse_stream(wire)
        inds = rig.take_indications()
        if rem:
            bad.append('wire-partial-pdu cell=%s' % cell)
        ew = exp['wire']
        if len(ew) != len(pdus) or not all(_match_wire(e, p) for e, p in zip(ew, pdus)):
            bad.append('wire cell=%s expected=%s got=%s' % (
                cell, [_ew(e) for e in ew], [p['kind'] for p in pdus]))
        eu = exp['user']
        if len(eu) != len(inds) or not all(_match_user(e, i) for e, i in zip(eu, inds)):
            bad.append('user cell=%s expected=%s got=%s' % (
                cell, [_eu(e) for e in eu], [_describe_user(i) for i in inds]))
        if rig.state() != model.state:
            bad.append('state cell=%s expected=%s got=%s' % (cell, model.state, rig.state()))
        closed = rig.sock_gone() if rig.prov_sock is not None else True
        if closed != (not model.sock_open):
            bad.append('close cell=%s expected_open=%s' % (cell, model.sock_open))
        elif rig.prov_sock is not None and (not model.sock_open) and not rig.prov_sock.closed:
            bad.append('close-fd cell=%s socket slot cleared but connection not closed' % cell)
        if rig.timer_running() != model.artim:
            bad.append('artim cell=%s expected_running=%s' % (cell, model.artim))
        self.states.add('%s/%d/%d/%d/%d' % (rig.state(), rig.timer_running(),
                                            not rig.provider.raw_pdu,
                                            rig.sm.dimse_decoder is not None, not rig.sock_gone()))
        # invariants of the statement
        if model.state == 'Sta1' and (model.sock_open or model.artim):
            bad.append('model-inconsistent')
        return bad

    def finish(self):
        """Liveness: peer closes, no more input => Sta1, closed, within ARTIM + 1 s."""
        rig, model = self.rig, self.model
        bad = []
        if rig.loop_dead():
            return bad
        if model.sock_open and not model.peer_fin:
            bad += self.step('p:fin')
        if bad:
            return bad
        rig.advance(ARTIM + 1.0)
        rig.settle()
        if rig.loop_dead():
            return ['loop-died-at-end']
        if model.requestor and not model.started:
            return bad
        if rig.state() != 'Sta1' or not rig.sock_gone():
            bad.append('liveness not-idle-after-close state=%s sock_gone=%s blocked=%s' % (
                rig.state(), rig.sock_gone(), rig.task.kind))
        extra = rig.take_indications()
        if extra:
            bad.append('indication-after-end %s' % [_describe_user(i) for i in extra])
        return bad

    def close(self):
        self.rig.close()


def _ew(e):
    if e[0] == 'raw':
        return rc.PDU_NAMES.get(e[1][0])
    return e[1]


def _eu(e):
    if e[0] == 'pdu':
        return rc.PDU_NAMES.get(e[1][0])
    if e[0] == 'dimse':
        return 'DIMSE'
    return e[0]


# ----------------------------------------------------------------------------- generation

def _enumerate(role, prefix, depth):
    """All event lists prefix + suffix (|suffix| <= depth) that the model allows."""
    def rec(model, hist, d):
        yield hist
        if d == 0:
            return
        for ev in model.enabled():
            if ev == 't:small':
                continue
            m = model.clone()
            m.apply(ev, 0.0)
            for h in rec(m, hist + [ev], d - 1):
                yield h
    m = Model(role)
    for ev in prefix:
        if ev not in m.enabled():
            return
        m.apply(ev, 0.0)
    for h in rec(m, list(prefix), depth):
        if len(h) > len(prefix):
            yield h


def cases(tier, seed):
    depth = 2 if tier == 'quick' else 3
    seen = set()
    for role in ('acceptor', 'requestor'):
        for prefix in PREFIXES[role]:
            for h in _enumerate(role, prefix, depth):
                # only maximal-or-leaf histories matter: a history is run step by step, so every
                # prefix of it is checked too; skip those that are a strict prefix of another
                k = (role, tuple(h))
                if k in seen:
                    continue
                seen.add(k)
                if len(h) - len(prefix) == depth or _terminal(role, h):
                    yield dict(role=role, events=h, mode='quiescent', seed=seed)
    # write faults: the connection is reset exactly when the provider is about to write the
    # first PDU an event calls for; the reference behaviour is "transport connection closed"
    # (Evt17) in the state the event found the machine in
    for role in ('acceptor', 'requestor'):
        for prefix in PREFIXES[role]:
            m = Model(role)
            ok = True
            for ev in prefix[:-1] if role == 'requestor' and prefix == ['u:assoc'] else prefix:
                if ev not in m.enabled():
                    ok = False
                    break
                m.apply(ev, 0.0)
            if not ok:
                continue
            pre = prefix[:-1] if role == 'requestor' and prefix == ['u:assoc'] else prefix
            for ev in m.enabled():
                if ev.startswith('t:') or ev == 'p:fin':
                    continue
                mm = m.clone()
                e = mm.apply(ev, 0.0)
                if e['wire']:
                    yield dict(role=role, events=list(pre) + [ev], mode='writefault', seed=seed)
    # everything the peer sends (and possibly its close) is already waiting when the provider
    # thread starts: the initial transport-connection indication and the first PDUs are
    # handled back to back
    rndp = random.Random('c05p/%d' % seed)
    pre_events = ['p:rq', 'p:unk', 'p:unk0', 'p:abort2', 'p:data', 'p:relrq', 'p:ac', 'p:rj']
    for a in pre_events:
        for fin in (False, True):
            yield dict(role='acceptor', mode='prestart', burst=[a], fin=fin, seed=seed)
            for b in ('p:rq', 'p:abort2', 'p:unk', 'p:relrp'):
                yield dict(role='acceptor', mode='prestart', burst=[a, b], fin=fin, seed=seed)
    # the peer's A-ABORT (or its close) arrives WHILE a fragmented outgoing message is being
    # sent: it is in the receive buffer before the k-th fragment is even produced.  An event
    # that has happened is acted upon before (much) more local data is sent.
    for role in ('acceptor', 'requestor'):
        for ev in ('p:abort', 'p:fin'):
            for k in (1, 2, 4):
                yield dict(role=role, mode='causal', event=ev, k=k, n=10, seed=seed)
    # the peer stops reading for a while (little buffering between the applications) in the
    # middle of a long outgoing message: nothing has happened in the protocol, so nothing may
    # be indicated, closed or given up - the rest goes out once the peer reads again
    for role in ('acceptor', 'requestor'):
        for stall in (6.0, 14.0, 40.0):
            for cap in (1024, 4096):
                yield dict(role=role, mode='stalled-peer', stall=stall, cap=cap, n=24, seed=seed)
    n_walk = 1500 if tier == 'quick' else 60000
    for i in range(n_walk):
        yield dict(role='acceptor' if i % 2 else 'requestor', walk=40, mode='quiescent',
                   seed=seed * 1000003 + i)
    n_conc = 1500 if tier == 'quick' else 60000
    for i in range(n_conc):
        yield dict(role='acceptor' if i % 2 else 'requestor', walk=10, mode='concurrent',
                   seed=seed * 1000003 + i)
    # several PDUs in one segment with the peer's close right behind them: everything that
    # arrived before the close must still be processed, in order
    for i in range(400 if tier == 'quick' else 20000):
        yield dict(role='acceptor' if i % 2 else 'requestor', walk=10, mode='concurrent',
                   finburst=True, seed=seed * 1000033 + i)


def _terminal(role, h):
    m = Model(role)
    for ev in h:
        m.apply(ev, 0.0)
    return [e for e in m.enabled() if not e.startswith('t:')] == []


def _pick(model, rnd):
    en = model.enabled()
    # bias: fewer protocol-breaking events so that walks get deep
    w = []
    for e in en:
        if e in ('p:fin',):
            w.append(0.3)
        elif e.startswith('t:'):
            w.append(0.5)
        elif e.startswith('u:abort') or e.startswith('p:abort') or e.startswith('p:unk'):
            w.append(0.4)
        elif e.startswith('p:') and rm.lookup(model.state, prims.PEER_EVENT[e[2:]]) in (
                'AA-1', 'AA-8', 'AA-7'):
            w.append(0.25)
        else:
            w.append(2.0)
    return rnd.choices(en, w)[0]


def run_causal(case):
    from .. import lib
    role = case['role']
    drv = Driver(role, 'c05ca/%s/%s/%s' % (case['seed'], case['event'], case['k']))
    viol = []
    res = {'violations': viol, 'stats': {}}
    try:
        rig = drv.rig
        for ev in (['p:rq', 'u:ac'] if role == 'acceptor' else ['u:assoc', 'p:ac']):
            if drv.step(ev):
                return {'violations': [], 'stats': {}, 'skipped': 'prefix failed'}
        n, k = case['n'], case['k']
        rig.wire_take()
        mark = len(rig.wire_bytes)
        produced = []

        def gen():
            for j in range(n):
                if j == k:
                    # by the time fragment k is asked for, the peer's PDU / close is already
                    # in the provider's receive buffer
                    if case['event'] == 'p:abort':
                        rig.peer_bytes(prims.PEER['abort'])
                    else:
                        rig.peer_fin()
                produced.append(j)
                yield lib.pdata([(1, 2 if j == n - 1 else 0, b'frag-%02d-' % j + b'x' * 8)])
        drv.history.append('~u:gen10+%s@%d' % (case['event'], k))
        rig.user(gen())
        rig.settle()
        rig.wire_take()
        pdus, rem = rc.parse_stream(rig.wire_bytes[mark:])
        sent = len([p_ for p_ in pdus if p_['kind'] == 'P-DATA-TF'])
        # fragments 0..k-1 were produced before the event existed; fragment k was being produced
        # when it arrived; one more is tolerated
        if sent > k + 2:
            viol.append(_viol('P-DATA-sent-after-the-association-was-over event=%s %d of %d '
                              'fragments went out although the peer\'s %s was waiting from '
                              'fragment %d on' % (case['event'], sent, n,
                                                  'A-ABORT' if case['event'] == 'p:abort' else 'close',
                                                  k), role, drv, case))
        inds = rig.take_indications()
        if not any(getattr(x, 'pdu_type', None) == 7 for x in inds):
            viol.append(_viol('user-not-told event=%s' % case['event'], role, drv, case))
        if rig.state() != 'Sta1' or not rig.sock_gone():
            viol.append(_viol('liveness not-idle-after-%s-during-transfer' % case['event'][2:],
                              role, drv, case))
        res['stats'] = {'probe.causal_fragments_sent': sent}
        return _fin(res, drv, case, viol)
    finally:
        drv.close()


def run_stalled_peer(case):
    from .. import lib
    role = case['role']
    drv = Driver(role, 'c05sp/%s/%s/%s' % (case['seed'], case['stall'], case['cap']))
    viol = []
    res = {'violations': viol, 'stats': {}}
    try:
        rig = drv.rig
        for ev in (['p:rq', 'u:ac'] if role == 'acceptor' else ['u:assoc', 'p:ac']):
            if drv.step(ev):
                return {'violations': [], 'stats': {}, 'skipped': 'prefix failed'}
        n = case['n']
        rig.wire_take()
        mark = len(rig.wire_bytes)
        rig.prov_sock.tx.capacity = case['cap']
        raws = [rc.enc_pdata([(1, 2 if j == n - 1 else 0, b'blk-%02d-' % j + b'z' * 400)])
                for j in range(n)]
        drv.history.append('~u:gen%d while the peer does not read for %.0f s' % (n, case['stall']))
        rig.user((lib.pdata([(1, 2 if j == n - 1 else 0, b'blk-%02d-' % j + b'z' * 400)])
                  for j in range(n)))
        rig.settle()
        rig.advance(case['stall'])
        rig.settle()
        inds = rig.take_indications()
        if inds or rig.state() != 'Sta6' or rig.sock_gone():
            viol.append(_viol('gave-up-on-a-peer-that-merely-reads-slowly stall=%.0f after %.0f s '
                              'without the peer reading: indications %r state %s socket gone %s'
                              % (case['stall'], case['stall'], [_describe_user(i) for i in inds],
                                 rig.state(), rig.sock_gone()), role, drv, case))
            return _fin(res, drv, case, viol)
        for _ in range(4 * n):
            rig.wire_take()          # the peer reads again
            rig.settle()
            if len(rig.wire_bytes) - mark >= len(b''.join(raws)):
                break
        rig.wire_take()
        sent = rig.wire_bytes[mark:]
        if sent != b''.join(raws):
            got_p, _rem = rc.parse_stream(sent)
            viol.append(_viol('outgoing-message-damaged-by-slow-peer stall=%.0f %d of %d PDUs '
                              'arrived (%d of %d bytes)' % (case['stall'], len(got_p), n,
                                                           len(sent), len(b''.join(raws))),
                              role, drv, case))
        if rig.take_indications() or rig.state() != 'Sta6' or rig.sock_gone():
            viol.append(_viol('association-disturbed-by-slow-peer stall=%.0f state %s' % (
                case['stall'], rig.state()), role, drv, case))
        rig.prov_sock.tx.capacity = None
        res['stats'] = {'fault.peer_stops_reading': 1}
        return _fin(res, drv, case, viol)
    finally:
        drv.close()


def run_case(case):
    if case.get('mode') == 'stalled-peer':
        return run_stalled_peer(case)
    if case.get('mode') == 'causal':
        return run_causal(case)
    if case.get('mode') == 'concurrent':
        return run_concurrent(case)
    if case.get('mode') == 'writefault':
        return run_writefault(case)
    if case.get('mode') == 'prestart':
        return run_prestart(case)
    role = case['role']
    drv = Driver(role, 'c05/%s' % case['seed'])
    viol = []
    res = {'violations': viol, 'stats': {}}
    try:
        events = case.get('events')
        if events is None:
            rnd = random.Random('c05w/%s' % case['seed'])
            n = case['walk']
        i = 0
        hist = []
        while True:
            if events is not None:
                if i >= len(events):
                    break
                ev = events[i]
                if ev not in drv.model.enabled():
                    break
            else:
                if i >= n:
                    break
                en = drv.model.enabled()
                if not [e for e in en if not e.startswith('t:')]:
                    break
                ev = _pick(drv.model, rnd)
            i += 1
            hist.append(ev)
            bad = drv.step(ev)
            if bad:
                viol.extend(_viol(b, role, drv, case) for b in bad)
                break
        if not viol:
            bad = drv.finish()
            viol.extend(_viol(b, role, drv, case) for b in bad)
        sim = drv.rig.sim
        cells = drv.model.cells
        res.update(digest=sim.digest.hexdigest(), sched_sig=','.join(drv.history),
                   steps=sim.steps, vsecs=sim.now - 1000.0, stats=dict(sim.stats),
                   nontrivial=any(s not in ('Sta1', 'Sta2', 'Sta4') for s, _ in cells),
                   sets={'fsm_cells_reached': ['%s,%s' % c for c in cells
                                               if rm.lookup(c[0], c[1]) is not None]},
                   sample={'role': role, 'history': list(drv.history),
                           'final_state': drv.rig.state()},
                   realized=list(drv.history), states=sorted(drv.states))
        if viol and events is None:
            # make the case explicit so that it can be shrunk and replayed event by event
            for v in viol:
                v['explicit'] = dict(role=role, events=[e for e in hist], mode='quiescent',
                                     seed=case['seed'])
    finally:
        drv.close()
    return res


def _viol(b, role, drv, case):
    # signature: the first token(s) up to the cell; details (expected/got lists) go to detail
    parts = b.split(' ')
    sig_parts = [p for p in parts if not p.startswith(('expected', 'got', 'blocked'))]
    sig = 'C05 %s role=%s' % (' '.join(sig_parts[:2]), role)
    tb = drv.rig.task.tb
    return {'sig': sig, 'detail': '%s\nhistory: %s\ncase: %r\nloop traceback: %s' % (
        b, drv.history, case, tb)}


def shrink(case):
    ev = case.get('events')
    if not ev:
        return
    for i in range(len(ev) - 1, -1, -1):
        cand = ev[:i] + ev[i + 1:]
        m = Model(case['role'])
        ok = True
        for e in cand:
            if e not in m.enabled():
                ok = False
                break
            m.apply(e, 0.0)
        if ok:
            yield dict(case, events=cand)


# ----------------------------------------------------------------------------- concurrent mode

def run_concurrent(case):
    """A quiescent prefix, then a burst of k events injected without waiting for quiescence
    (peer bytes and user primitives racing), then quiescence.  Oracle: outputs per channel must
    equal the model's outputs for some interleaving of the peer sequence and the user sequence."""
    role = case['role']
    rnd = random.Random('c05c/%s' % case['seed'])
    drv = Driver(role, 'c05c/%s' % case['seed'])
    viol = []
    res = {'violations': viol, 'stats': {}}
    try:
        # prefix to an interesting state
        pre = rnd.choice(PREFIXES[role][1:6])
        for ev in pre:
            if ev not in drv.model.enabled():
                break
            bad = drv.step(ev)
            if bad:
                viol.extend(_viol(b, role, drv, case) for b in bad)
                return _fin(res, drv, case, viol)
        burst = case.get('burst')
        if burst is None and case.get('finburst'):
            m = drv.model.clone()
            burst = []
            part_open = m.partial
            for _ in range(rnd.randint(2, 4)):
                en = [e for e in m.enabled() if e.startswith('p:') and e != 'p:fin']
                if part_open:
                    en = [e for e in en if e not in ('p:data', 'p:data2', 'p:part')]
                if not en:
                    break
                ev = rnd.choice(en)
                part_open = (ev == 'p:part') or (part_open and ev != 'p:rest')
                burst.append(ev)
                m.apply(ev, 0.0)
            if 'p:fin' in m.enabled() or not m.sock_open:
                burst.append('p:fin')
            case = dict(case, gaps=[0.0] * len(burst))
        if burst is None:
            # draw a peer sequence and a user sequence, each legal along SOME path; we draw them
            # from a model walk so that at least one serialisation is sensible
            m = drv.model.clone()
            burst = []
            part_open = m.partial
            for _ in range(rnd.randint(2, 4)):
                en = [e for e in m.enabled() if not e.startswith('t:')]
                if not en:
                    break
                ev = _pick(m, rnd)
                if ev.startswith('t:'):
                    continue
                # keep the peer's PDV stream well-formed under EVERY serialisation: once a
                # partial message is open in this burst only its continuation may follow
                if part_open and ev in ('p:data', 'p:data2', 'p:part'):
                    continue
                if ev == 'p:part':
                    part_open = True
                elif ev == 'p:rest':
                    part_open = False
                burst.append(ev)
                m.apply(ev, 0.0)
        peer_seq = [e for e in burst if e.startswith('p:')]
        user_seq = []
        for e in burst:
            if e == 'u:gen':
                user_seq += ['u:gen#0', 'u:gen#1', 'u:gen#2']
            elif e.startswith('u:'):
                user_seq.append(e)
        if drv.pre_time('x') is not None:
            bad = drv.step('t:expire')
            if bad:
                viol.extend(_viol(b, role, drv, case) for b in bad)
                return _fin(res, drv, case, viol)
        # inject all at once, in burst order, with tiny seeded gaps
        gaps = case.get('gaps') or [rnd.choice([0.0, 0.0, 0.01, 0.03, 0.06]) for _ in burst]
        t_inj = drv.rig.sim.now
        for ev, g in zip(burst, gaps):
            drv.history.append('~' + ev)
            drv.inject(ev)
            if g:
                drv.rig.advance(g)
        settled = drv.rig.settle()
        rig = drv.rig
        wire = rig.wire_take()
        pdus, rem = rc.parse_stream(wire)
        inds = rig.take_indications()
        dead = rig.loop_dead()
        # search serialisations
        ok = False
        tried = 0
        finals = []
        for order in _merges(peer_seq, user_seq):
            tried += 1
            m = drv.model.clone()
            ew, eu = [], []
            for ev in order:
                if ev.startswith('u:') and ev not in m.enabled() and ev != 'u:gen':
                    # a user primitive that is no longer legal in this serialisation: the
                    # standard leaves the cell undefined -> no effect
                    pass
                e = m.apply(ev, t_inj)
                ew += e['wire']
                eu += e['user']
            finals.append((m.state, [_ew(x) for x in ew], [_eu(x) for x in eu]))
            if dead:
                continue
            if len(ew) != len(pdus) or not all(_match_wire(a, b) for a, b in zip(ew, pdus)):
                continue
            if len(eu) != len(inds) or not all(_match_user(a, b) for a, b in zip(eu, inds)):
                continue
            if rig.state() != m.state:
                continue
            closed = rig.sock_gone() if rig.prov_sock is not None else True
            if closed != (not m.sock_open):
                continue
            if rig.timer_running() != m.artim:
                continue
            ok = True
            drv.model = m
            if m.artim:
                drv.deadline = t_inj + ARTIM
                m.artim_start = t_inj
            else:
                drv.deadline = None
            break
        if not ok:
            state0 = drv.model.state
            what = 'loop-died exc=%s' % (type(rig.task.exc).__name__ if rig.task.exc else '-') \
                if dead else 'no-serialisation-matches'
            viol.append({
                'sig': 'C05 concurrent %s from=%s role=%s%s' % (
                    what, state0, role, (' at=%s' % _where(rig.task.tb)) if dead else ''),
                'detail': 'burst %r gaps %r settled %s\nobserved wire %r user %r state %s '
                          'sock_gone %s artim %s\nmodel serialisations: %r\nhistory %r\n'
                          'traceback: %s' % (
                              burst, gaps, settled, [p['kind'] for p in pdus],
                              [_describe_user(i) for i in inds], rig.state(), rig.sock_gone(),
                              rig.timer_running(), finals[:12], drv.history, rig.task.tb),
                'explicit': dict(case, burst=burst, gaps=gaps)})
        else:
            bad = drv.finish()
            viol.extend(_viol(b, role, drv, case) for b in bad)
        res['stats'] = {'probe.concurrent_bursts': 1, 'probe.merges_tried': tried}
        return _fin(res, drv, case, viol)
    finally:
        drv.close()


def _where(tb):
    """Innermost library frame of a traceback: 'file.py:function'."""
    import re
    fr = re.findall(r'File "[^"]*/pynetdicom2/([^"]+)", line \d+, in (\w+)', tb or '')
    return '%s:%s' % fr[-1] if fr else '?'


def _fin(res, drv, case, viol):
    sim = drv.rig.sim
    cells = drv.model.cells
    st = dict(sim.stats)
    st.update(res.get('stats', {}))
    res.update(digest=sim.digest.hexdigest(), sched_sig=','.join(drv.history), steps=sim.steps,
               vsecs=sim.now - 1000.0, stats=st, nontrivial=True,
               sets={'fsm_cells_reached': ['%s,%s' % c for c in cells
                                           if rm.lookup(c[0], c[1]) is not None]},
               sample={'role': case['role'], 'history': list(drv.history), 'mode': case.get('mode')},
               states=sorted(drv.states))
    return res


def _merges(a, b):
    """All interleavings of sequences a and b (order inside each preserved)."""
    if not a:
        yield list(b)
        return
    if not b:
        yield list(a)
        return
    for rest in _merges(a[1:], b):
        yield [a[0]] + rest
    for rest in _merges(a, b[1:]):
        yield [b[0]] + rest


def run_writefault(case):
    from .. import sched
    role = case['role']
    drv = Driver(role, 'c05wf/%s/%s' % (case['seed'], '.'.join(case['events'])))
    viol = []
    res = {'violations': viol, 'stats': {}}
    try:
        events = case['events']
        for ev in events[:-1]:
            if ev not in drv.model.enabled():
                return _fin(res, drv, case, viol)
            bad = drv.step(ev)
            if bad:
                return _fin(res, drv, case, viol)      # C05 quiescent mode reports these
        ev = events[-1]
        if ev not in drv.model.enabled():
            return _fin(res, drv, case, viol)
        if drv.pre_time(ev) is not None:
            drv.step('t:expire')
            if ev not in drv.model.enabled():
                return _fin(res, drv, case, viol)
        rig = drv.rig
        armed = {'on': True}

        def at_send():
            t = rig.task
            return armed['on'] and t.kind == 'sendall' and not t.done and rig.prov_sock is not None

        def do_rst():
            armed['on'] = False
            rig.peer_rst()
            rig.sim.bump('fault.rst_before_sendall')
        rig.sim.actors.append(sched.Trigger('rst@send', at_send, do_rst))
        state0 = drv.model.state
        drv.history.append('!' + ev)
        drv.inject(ev)
        settled = rig.settle()
        m = drv.model
        if ev == 'u:assoc':
            m.state, m.sock_open, m.started = 'Sta4', True, True
        exp = {'wire': [], 'user': [], 'ev': ev + '+write-fails'}
        if not armed['on']:
            m._fsm('Evt17', exp, None, None)
            m.sock_open = False
            m.peer_fin = True
        else:
            exp = m.apply(ev, rig.sim.now)     # the write never happened (nothing to send)
        if m.artim:
            drv.deadline = rig.sim.now + ARTIM
        else:
            drv.deadline = None
        for b in drv.compare(exp, settled, state0):
            viol.append(_viol(b, role, drv, case))
        extra = rig.take_indications()
        if not viol:
            rig.advance(ARTIM + 1.0)
            rig.settle()
            late = rig.take_indications()
            if late:
                viol.append(_viol('indication-after-end cell=(%s,%s+write-fails) %s' % (
                    state0, ev, [_describe_user(i) for i in late]), role, drv, case))
            if rig.loop_dead():
                viol.append(_viol('loop-died cell=(%s,%s+write-fails)' % (state0, ev), role, drv,
                                  case))
        res['stats'] = {'fault.rst_before_sendall': 0 if armed['on'] else 1}
        return _fin(res, drv, case, viol)
    finally:
        drv.close()


def run_prestart(case):
    role = case['role']
    burst = case['burst']
    data = b''.join(prims.PEER[e[2:]] for e in burst)
    drv = Driver(role, 'c05ps/%s/%s/%s' % (case['seed'], '.'.join(burst), case['fin']),
                 prebuffer=data, fin_at_start=case['fin'], settle=False)
    viol = []
    res = {'violations': viol, 'stats': {}}
    try:
        rig = drv.rig
        drv.history = ['~prestart:' + e for e in burst] + (['~p:fin'] if case['fin'] else [])
        t0 = rig.sim.now
        settled = rig.settle()
        m = drv.model
        ew, eu = [], []
        for ev in burst + (['p:fin'] if case['fin'] else []):
            if ev != 'p:fin' and not m.sock_open:
                continue
            e = m.apply(ev, t0)
            ew += e['wire']
            eu += e['user']
        if m.artim:
            drv.deadline = t0 + ARTIM
        else:
            drv.deadline = None
        exp = {'wire': ew, 'user': eu, 'ev': 'prestart:' + '+'.join(burst) +
               ('+fin' if case['fin'] else '')}
        for b in drv.compare(exp, settled, 'Sta2'):
            viol.append(_viol(b, role, drv, case))
        if not viol:
            for b in drv.finish():
                viol.append(_viol(b, role, drv, case))
        return _fin(res, drv, case, viol)
    finally:
        drv.close()
