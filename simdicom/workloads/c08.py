"""C08 -- transmitted command sets are well-formed (group length, tag order, Command Field,
data-set flag), however often the same message object is sent.  Same scenario as C06; the
oracle is R-codec's strict command-group reader applied to every command stream on the wire."""
import random

from . import c06

PROPERTY = 'C08'
LEVEL = 'exploration'
BUDGET = {'quick': 55, 'thorough': 900}
CHUNK = 4
EXHAUSTIVE = {'quick': False, 'thorough': False}
RULE = ('cases = seeded lists of messages over all 23 classes x field values (UID lengths 1..64 '
        'for odd/even padding, 16-bit boundaries, optional fields set/unset) x data set '
        'absent/bytes/file x the same object sent 1..3 times with changed fields, transmitted '
        'by the real provider thread under a seeded schedule; oracle = independent implicit-VR-LE '
        'reader: (0000,0000) first and equal to the bytes that follow, ascending tags, even '
        'lengths, Command Field = class code, Command Data Set Type = 0101H iff no data fragment '
        'follows, values = send-time snapshot; non-trivial = message re-sent or with optional '
        'fields; distinct = distinct (class, max, data kind, size, pcid)')
ASSUMPTIONS = c06.ASSUMPTIONS


def cases(tier, seed):
    rnd = random.Random('c08/%d' % seed)
    n = 3000 if tier == 'quick' else 80000
    for i in range(n):
        yield dict(local=rnd.choice([64, 128, 1024, 16384, 65536]),
                   peer=rnd.choice([48, 128, 16384, 65536, 0]), seed=seed * 100019 + i)


_base_cases = cases


def cases(tier, seed):    # noqa: F811
    # several associations sending at the same time in one process, with line-level
    # pre-emption inside the group-length computation and the element encoder they share
    rnd = random.Random('c08h/%d' % seed)
    for i in range(300 if tier == 'quick' else 10000):
        yield dict(local=rnd.choice([128, 16384]), peer=65536, seed=seed * 100057 + i,
                   nassoc=rnd.choice([2, 3]),
                   fine=['set_length', 'encode_element', 'encode', 'send'])
    # (the bulk comes last so that a wall-clock budget cut never drops the family above)
    for c in _base_cases(tier, seed):
        yield c


def run_case(case):
    return c06.run_case(case, want='c08')
