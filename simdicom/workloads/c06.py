"""C06 -- DIMSE fragmentation on the real send path: size bound, flags, byte-exact content.

The arithmetic of chunks()/fragment() is a pure function and is only *sampled* here (grid of
maximum lengths x data sizes around multiples of the fragment size).  What simulation adds is the
transmission path: Association.send hands a generator to the provider thread, which evaluates
it fragment by fragment while the caller keeps running, sends the next message, or changes and
re-sends the same message object; file data sets are read lazily."""
import random

from .. import dimse_send, peers, refcodec as rc

PROPERTY = 'C06'
LEVEL = 'exploration'
BUDGET = {'quick': 55, 'thorough': 900}
CHUNK = 4
EXHAUSTIVE = {'quick': False, 'thorough': False}
RULE = ('cases = (local maximum, peer-announced maximum) x seeded list of messages (all 23 classes; '
        'data set absent / bytes / file; sizes k*(max-6)+{-2..2}; context ids 1..255; caller '
        'idles, sends back-to-back, or changes and re-sends the same message object) under a '
        'seeded schedule and segmentation; thorough adds the full small grid max 7..40 x length '
        '0..3*(max-6)+2 through the simulated stack; oracle = wire monitor (R-codec/R-dimse) '
        'against the send-time snapshot; non-trivial = message with >= 2 fragments or a data '
        'set; distinct = distinct (class, max, data kind, size, pcid); duplex family: the peer sends messages of its own for every k-th PDU it reads; rel_mid family: the peer asks for release behind the k-th PDU it reads')
ASSUMPTIONS = ['send snapshot = command set and data bytes at the instant Association.send is '
               'called (deep copy made by the harness)', 'sampling of the size/length grid',
               'the caller does not close a file it handed to send()']

MAXES = [7, 8, 9, 10, 12, 16, 17, 31, 32, 33, 40, 64, 128, 200, 1024, 4096, 16384, 65536]


def cases(tier, seed):
    rnd = random.Random('c06/%d' % seed)
    # two caller threads sending on ONE association at the same time (line-level pre-emption
    # inside send/encode): every message must still be one contiguous fragment sequence
    for i in range(300 if tier == 'quick' else 10000):
        m = rnd.choice([24, 40, 64, 128, 1024])
        yield dict(local=m, peer=65536, seed=seed * 100043 + i, senders=2,
                   fine=['send', 'encode', '_fragments', 'set_length'])
    # full-duplex traffic: the peer sends messages of its own while the entity is in the middle
    # of sending: what goes out is still exactly the fragments of the messages that were sent
    for i in range(200 if tier == 'quick' else 8000):
        m = rnd.choice([16, 32, 64, 128, 1024])
        yield dict(local=m, peer=65536, seed=seed * 100049 + i, chatty=rnd.choice([1, 1, 2, 3]))
    # the peer asks for release in the middle of it all: what the user still sends before it
    # answers (P-DATA is legal until then) goes out whole
    for i in range(120 if tier == 'quick' else 5000):
        m = rnd.choice([16, 32, 64, 128, 1024])
        yield dict(local=m, peer=65536, seed=seed * 100069 + i, rel_mid=rnd.choice([1, 2, 3, 5, 9]))
    # (the bulk comes after the small families so that a budget cut never drops those)
    n = 3000 if tier == 'quick' else 80000
    for i in range(n):
        m = rnd.choice(MAXES)
        # which side imposes it
        if rnd.random() < 0.5:
            local, peer = m, rnd.choice([m, 65536, 0, 2 ** 32 - 1])
        else:
            # (0: the local side is configured without a limit of its own)
            local, peer = rnd.choice([65536, 2 ** 31, 2 ** 32 - 1, 0]), m
        yield dict(local=local, peer=peer, seed=seed * 100003 + i)
    if tier == 'thorough':
        from pynetdicom2 import dimsemessages  # noqa
        for m in range(7, 41):
            f = m - 6
            for ln in range(0, 3 * f + 3):
                yield dict(local=m, peer=65536, seed=seed, grid=[m, ln])


def evaluate(out, want, by_content=False):
    """Shared with C08/C10: per-message findings.  want in {'c06','c08'}."""
    res = []
    pairs, groups = dimse_send.pair_up(out, by_content)
    peer = out['peer']
    for s, g in pairs:
        rec = {'send': s, 'problems': []}
        res.append(rec)
        if g is None:
            rec['problems'].append((
                'not-transmitted' if not by_content else 'not-transmitted-as-one-contiguous-message',
                'message %d (%s) never appeared on the wire%s' % (
                    s.index, s.cls, ' as a contiguous, byte-exact fragment sequence' if by_content
                    else '')))
            continue
        # the bound in force is the harness's own (smaller non-zero of what the entity was
        # configured with and what the peer announced), not what the library thinks it is
        bound = out['neg'] if out.get('neg') is not None else s.max_length
        fr, cmd, data = peers.check_fragmentation(g, bound, s.pcid)
        rec['cmd'], rec['data'], rec['npdv'] = cmd, data, sum(len(p['pdvs']) for p in g)
        if want == 'c06':
            for f in fr:
                rec['problems'].append((f.split(' ')[0], f))
            for p in g:
                if len(p['pdvs']) < 1:
                    rec['problems'].append(('empty-pdu', ''))
            fields, cprob = rc.check_command(cmd)
            if _norm(fields) != _norm(_cmd_fields(s.fields)):
                rec['problems'].append(('command-content-differs-from-send-time',
                                        'sent %r\nwire %r' % (_norm(_cmd_fields(s.fields)),
                                                              _norm(fields))))
            sd = s.data if not isinstance(s.data, tuple) else None
            if (data or None) != (sd or None):
                rec['problems'].append(('data-content-differs-from-send-time',
                                        'sent %d bytes, wire %s bytes' % (
                                            len(sd or b''), len(data) if data is not None else None)))
        else:
            fields, cprob = rc.check_command(cmd)
            rec['fields'] = fields
            for c in cprob:
                rec['problems'].append((_ckind(c), c))
            if fields.get(0x0100) != s.command_field:
                rec['problems'].append(('command-field-not-message-type',
                                        'class %s (%04x) sent %r' % (s.cls, s.command_field,
                                                                     fields.get(0x0100))))
            no_ds = fields.get(0x0800) == rc.NO_DATASET
            if no_ds != (data is None):
                rec['problems'].append(('data-set-type-flag-wrong',
                                        'CommandDataSetType %r, data fragments follow: %s' % (
                                            fields.get(0x0800), data is not None)))
            if _norm(fields) != _norm(_cmd_fields(s.fields)):
                rec['problems'].append(('command-content-differs-from-send-time',
                                        'sent %r\nwire %r' % (_norm(_cmd_fields(s.fields)),
                                                              _norm(fields))))
    if by_content and out.get('unmatched_groups'):
        res.append({'send': None, 'problems': [(
            'wire-message-matches-no-send', '%d message groups on the wire match nothing that was '
            'sent (fragments of different messages interleaved?)' % len(out['unmatched_groups']))]})
    if len(groups) > len(pairs):
        res.append({'send': None, 'problems': [('extra-message-on-wire', '%d groups, %d sends' % (
            len(groups), len(pairs)))]})
    return res


def _ckind(c):
    if c.startswith('group length'):
        return 'group-length-wrong'
    if c.startswith('tags not'):
        return 'tags-not-ascending'
    if c.startswith('odd value'):
        return 'odd-length'
    return c.split(':')[0].replace(' ', '-')[:40]


def _cmd_fields(f):
    return {k: v for k, v in f.items() if k < 0x10000}


def _norm(f):
    out = {}
    for k, v in f.items():
        if k == 0:
            continue
        if v == '' or v == b'' or v == ():
            v = ''
        elif k == 0x0800:
            v = 'none' if v == rc.NO_DATASET else 'present'
        elif isinstance(v, tuple) and rc.CMD_VR.get(k) == 'AT':
            v = 'AT'
        elif isinstance(v, str) and rc.CMD_VR.get(k) == 'AT':
            v = 'AT'
        out[k] = v
    return out


def run_case(case, want='c06'):
    specs = None
    if case.get('grid'):
        m, ln = case['grid']
        specs = [dict(cf=0x0001, data='bytes' if ln else 'none', size=ln, pcid=1, full=True,
                      resend=0, pause=0),
                 dict(cf=0x8020, data='file' if ln else 'none', size=ln, pcid=3, full=True,
                      resend=0, pause=0)]
    out = dimse_send.run(case['seed'], case['local'], case['peer'], specs=specs,
                         nassoc=case.get('nassoc', 1), senders=case.get('senders', 1),
                         fine=case.get('fine'), chatty=case.get('chatty', 0),
                         rel_mid=case.get('rel_mid', 0))
    world = out['world']
    try:
        viol = []
        peer = out['peer']
        sim = world.sim
        t = out['user']
        prop = 'C06' if want == 'c06' else 'C08'
        if t.exc is not None and not isinstance(t.exc, Exception):
            return {'harness_error': 'user task: %s' % t.tb, 'violations': []}
        if t.exc is not None:
            viol.append({'sig': '%s sender-failed exc=%s' % (prop, type(t.exc).__name__),
                         'detail': '%s\ncase %r' % (t.tb, case)})
        recs = []
        for rec_ in out['assocs']:
            sub = {'peer': rec_['peer'], 'sends': rec_['sends'], 'neg': out.get('neg')}
            recs += evaluate(sub, want, by_content=case.get('senders', 1) > 1)
            for ut in rec_['users']:
                if ut.exc is not None and isinstance(ut.exc, Exception) and ut is not t:
                    viol.append({'sig': '%s sender-failed exc=%s' % (prop, type(ut.exc).__name__),
                                 'detail': '%s\ncase %r' % (ut.tb, case)})
        nontrivial = False
        keys = []
        for r in recs:
            s = r['send']
            if s is not None:
                keys.append('%s/%s/%s/%s/%s' % (s.cls, s.max_length, 'file' if s.is_file else
                                                ('bytes' if s.data else 'none'),
                                                len(s.data) if isinstance(s.data, bytes) else 0,
                                                s.pcid))
                if s.data or r.get('npdv', 0) >= 2:
                    nontrivial = True
            for kind, det in r['problems']:
                how = ''
                if s is not None and kind.endswith('send-time'):
                    later = [x for x in out['sends'] if x.index > s.index and
                             x.assoc is s.assoc]
                    how = ' resent-later=%s' % bool(later)
                viol.append({'sig': '%s %s%s' % (prop, kind, how),
                             'detail': '%s\nmessage %s #%s max=%s pcid=%s\ncase %r specs %r' % (
                                 det, s.cls if s else None, s.index if s else None,
                                 s.max_length if s else None, s.pcid if s else None, case,
                                 out['specs'])})
        if peer is not None:
            for e in peer.errors:
                viol.append({'sig': '%s peer-saw-protocol-error' % prop,
                             'detail': '%s\ncase %r' % (e, case)})
        dead = [x for x in sim.tasks if x.role == 'dul' and x.exc is not None]
        for d in dead:
            viol.append({'sig': '%s provider-died exc=%s' % (prop, type(d.exc).__name__),
                         'detail': '%s\ncase %r' % (d.tb, case)})
        # de-duplicate by signature
        seen, uniq = set(), []
        for v in viol:
            if v['sig'] not in seen:
                seen.add(v['sig'])
                uniq.append(v)
        return {'violations': uniq, 'stats': dict(sim.stats), 'digest': sim.digest.hexdigest(),
                'sched_sig': '|'.join(sorted(set(keys)))[:400] or 'empty', 'steps': sim.steps,
                'vsecs': sim.now - 1000.0, 'nontrivial': nontrivial,
                'sets': {'message_shapes': keys},
                'sample': {'case': case, 'negotiated': out['result'].get('negotiated'),
                           'messages': [(r['send'].cls, r.get('npdv')) for r in recs
                                        if r['send'] is not None][:8]}}
    finally:
        world.close()
