"""C07 -- DIMSE reassembly is exact under any PDV grouping; completion detected exactly.

A real provider in Sta6 (or Sta7) receives a reference-fragmented message regrouped into
P-DATA-TF PDUs by every composition of its fragment list (exhaustive for short lists), over a
seeded TCP segmentation, in memory or file-backed (real AEBase.get_file / write_meta on SimFS),
for all 23 command-field codes; plus disk-error injection on the file-backed path."""
import random
import struct

from .. import refcodec as rc, prims, lib, fs as simfs
from ..rig import Rig
from . import c05

PROPERTY = 'C07'
LEVEL = 'exploration'
BUDGET = {'quick': 55, 'thorough': 900}
CHUNK = 16
EXHAUSTIVE = {'quick': False, 'thorough': False}
RULE = ('cases = command field (all 23) x data set absent/present (sizes around multiples of the '
        'fragment size) x maximum length x EVERY composition of the fragment list into PDUs for '
        'lists of <= 7 (quick) / <= 10 (thorough) fragments, seeded compositions beyond x '
        '{in-memory, file-backed} x {Sta6, Sta7} x seeded segmentation; fault configuration: '
        'ENOSPC/EIO at the n-th file write; oracle after EVERY PDU: nothing delivered and '
        'decoder still receiving until the PDV R-dimse designates, then exactly one message of '
        'the right class, context, command set and data bytes; non-trivial = >= 2 fragments; '
        'distinct = distinct (code, sizes, composition, mode, state)'
        '; duplex (outgoing generator messages handed over before each incoming PDU) and rival (a second thread receiving file-backed instances under pre-emption) cases; 30 % of data-set flags other than 0001H; assoc_layer family: file-backed C-STORE sent the moment the A-ASSOCIATE-AC of the real accepting layer has been read, under pre-emption')
ASSUMPTIONS = ['R-dimse completion rule: last command fragment if Command Data Set Type = 0101H, '
               'else last data fragment', 'pydicom is not used by the oracle: the Part-10 meta '
               'header is read by a small explicit-VR-LE reader written for the check',
               'only the fragments of ONE message are grouped (PDVs of two messages sharing a '
               'PDU are outside the statement)']

CT = '1.2.840.10008.5.1.4.1.1.2'
CODES = sorted(rc.COMMAND_FIELDS)
TS = {1: rc.IMPLICIT_LE, 3: rc.EXPLICIT_LE, 5: rc.EXPLICIT_BE}


def compositions(k):
    """All ways to cut a list of k items into consecutive groups (as lists of group sizes)."""
    for mask in range(1 << (k - 1)):
        sizes, cur = [], 1
        for i in range(k - 1):
            if mask & (1 << i):
                sizes.append(cur)
                cur = 1
            else:
                cur += 1
        sizes.append(cur)
        yield sizes


def _cmd_fields(code, has_data, rnd):
    f = {0x0100: code, 0x0800: 0x0001 if has_data else 0x0101}
    if has_data and rnd.random() < 0.3:
        # PS3.7 E.1: any value other than 0101H says that a data set follows
        f[0x0800] = rnd.choice([0x0000, 0x0102, 0x0100, 0x0002, 0xFFFF])
    if code in (0x0110, 0x0120, 0x0130, 0x0150):
        f[0x0003] = CT
        f[0x1001] = '1.2.3.%d' % rnd.randrange(1000)
    else:
        f[0x0002] = CT
    if code & 0x8000 or code == 0x0FFF:
        f[0x0120] = rnd.randrange(65536)
        if code != 0x0FFF:
            f[0x0900] = rnd.choice([0, 0xFF00, 0xC000])
    else:
        f[0x0110] = rnd.randrange(65536)
    if code in (0x0001, 0x8001, 0x0100, 0x8100, 0x0140, 0x8140):
        f[0x1000] = '1.2.840.99.%d' % rnd.randrange(100000)
    if code in (0x0001, 0x0020, 0x0010, 0x0021):
        f[0x0700] = rnd.choice([0, 1, 2])
    if code == 0x0021:
        f[0x0600] = 'DEST'
    return f


def cases(tier, seed):
    rnd = random.Random('c07/%d' % seed)
    kmax = 7 if tier == 'quick' else 10
    shapes = []
    for code in CODES:
        for has_data in (False, True):
            if code == 0x0FFF and has_data:
                continue
            shapes.append((code, has_data))
    # exhaustive compositions for a rotating subset of shapes per run, all shapes in thorough
    sel = shapes if tier == 'thorough' else [s for i, s in enumerate(shapes) if (i + seed) % 5 == 0]
    for code, has_data in sel:
        for mode in ('mem', 'file'):
            if mode == 'file' and not (has_data and code == 0x0001):
                continue
            maxlen = rnd.choice([40, 60, 100])
            dsize = rnd.choice([(maxlen - 6) * 2, (maxlen - 6) * 2 + 2, 30]) if has_data else 0
            yield dict(code=code, dsize=dsize, maxlen=maxlen, comp='all', kmax=kmax, mode=mode,
                       state='Sta6', seed=seed)
    # C-STORE file-backed and in-memory, every composition, both states
    for mode in ('mem', 'file'):
        for st in ('Sta6', 'Sta7'):
            for pcid in (1, 3, 5):
                yield dict(code=0x0001, dsize=70, maxlen=46, comp='all', kmax=kmax, mode=mode,
                           state=st, seed=seed, pcid=pcid)
                if mode == 'file':
                    yield dict(code=0x0001, dsize=70, maxlen=46, comp='seeded', mode=mode,
                               state=st, seed=seed, pcid=pcid, rival=True)
                    yield dict(code=0x0001, dsize=70, maxlen=46, comp='seeded', mode=mode,
                               state=st, seed=seed + pcid, pcid=pcid, offset=True)
                yield dict(code=0x0001, dsize=70, maxlen=46, comp='seeded', mode=mode,
                           state=st, seed=seed + 2 * pcid, pcid=pcid, consumer=True,
                           offset=(pcid == 3))
                if st == 'Sta6':
                    # the same while the local user keeps handing over outgoing messages
                    yield dict(code=0x0001, dsize=70, maxlen=46, comp='seeded', mode=mode,
                               state=st, seed=seed, pcid=pcid, duplex=True)
    for i in range(60 if tier == 'quick' else 2500):
        yield dict(behind_ac=True, k=rnd.choice([1, 1, 2, 5]), dsize=rnd.choice([60, 200, 600]),
                   maxlen=rnd.choice([40, 64, 128]), gap=rnd.choice([0.0, 0.05, 0.4]),
                   stall_user=rnd.choice([0, 0, 20, 60]), code=1, mode='mem', state='Sta6',
                   seed=seed * 100129 + i)
    n = 800 if tier == 'quick' else 40000
    for i in range(n):
        code, has_data = rnd.choice(shapes)
        maxlen = rnd.choice([7, 8, 12, 30, 46, 64, 200, 4096])
        frag = maxlen - 6
        dsize = 0
        if has_data:
            dsize = max(2, rnd.choice([1, 2, 3, 5]) * frag + rnd.choice([-2, 0, 2]))
            dsize = min(dsize, 1200) if maxlen > 12 else min(dsize, 30)
        mode = 'file' if (code == 0x0001 and has_data and rnd.random() < 0.5) else 'mem'
        fault = None
        if mode == 'file' and rnd.random() < 0.25:
            fault = [rnd.choice(['ENOSPC', 'EIO']), rnd.randint(1, 6)]
        yield dict(code=code, dsize=dsize, maxlen=maxlen, comp='seeded', mode=mode,
                   state=rnd.choice(['Sta6', 'Sta6', 'Sta7']), seed=seed * 100003 + i, fault=fault,
                   pcid=rnd.choice([1, 3, 5]), duplex=rnd.random() < 0.3,
                   rival=rnd.random() < 0.3, offset=rnd.random() < 0.3,
                   consumer=rnd.random() < 0.3)


def _behind_ac(case):
    """Requesting side, real association layer: the peer puts the first k PDUs of a fragmented
    message into the same write as its A-ASSOCIATE-AC, the rest follows later.  The provider
    thread starts reassembling before the association thread has finished the negotiation."""
    from pynetdicom2 import applicationentity, sopclass
    from ..world import SimWorld
    from .. import peers
    world = SimWorld('c07/bac/%s' % case['seed'])
    viol = []
    addr = ('peerhost', 104)

    def v(rule, detail):
        viol.append({'sig': 'C07 %s mode=behind-ac' % rule,
                     'detail': '%s\ncase %r' % (detail, case)})
    try:
        rnd = random.Random('c07b/%s' % case['seed'])
        data = _dataset(case['dsize'], rc.IMPLICIT_LE)
        fields = {0x0002: CT, 0x0100: 0x0001, 0x0110: 77, 0x0700: 0, 0x0800: 1,
                  0x1000: '1.2.826.0.1.7.%d' % (case['seed'] % 10 ** 6)}
        cmd = rc.enc_command(fields)
        pdvs = rc.fragment_message(1, cmd, data, case['maxlen'])
        pdus = [rc.enc_pdata([x]) for x in pdvs]
        k = min(case['k'], len(pdus) - 1)

        class Acc(peers.ScriptedAcceptor):
            def run(self):
                p = self.read_pdu()
                if p is None or p == 'timeout' or p['kind'] != 'A-ASSOCIATE-RQ':
                    self.close()
                    return
                self.rq = p
                res = self.accept(p['contexts'])
                ac = rc.enc_assoc_ac(called=p['called'], calling=p['calling'], results=res,
                                     max_length=16384)
                self.send(ac + b''.join(pdus[:k]))          # one write
                self.sim.sleep(case['gap'])
                for x in pdus[k:]:
                    self.send(x)
                self.serve()
        world.serve_peer(addr, lambda sock: Acc(world.sim, sock))
        cli = world.make_ae(applicationentity.ClientAE, 'CLI', [rc.IMPLICIT_LE], 16384)
        cli.timeout = 30
        cli.add_scu(sopclass.storage_scu, [CT])
        out = {}

        def user():
            try:
                with cli.request_association({'aet': 'SRV', 'address': addr[0],
                                              'port': addr[1]}) as assoc:
                    out['msg'] = assoc.receive()
            except Exception as e:  # pylint: disable=broad-except
                out['exc'] = e
        world.spawn(user, 'user')
        if case.get('stall_user'):
            # the association thread is slow to come back from the negotiation
            from .. import sched
            world.sim.actors.append(sched.Trigger(
                'stall-user', lambda: world.sim.steps >= case['stall_user'],
                lambda: [world.sim.stall(t_, 0.3) for t_ in world.sim.tasks
                         if t_.name == 'user' and not t_.done]))
        world.run(tmax=300)
        world.drain(2.0)
        if 'msg' not in out:
            v('message-behind-the-association-reply-not-delivered',
              '%d of %d PDUs were in the same write as the A-ASSOCIATE-AC; user got %r' % (
                  k, len(pdus), out.get('exc')))
        else:
            msg, pcid = out['msg']
            got = {}
            for el in msg.command_set:
                if int(el.tag) & 0xffff:
                    got[int(el.tag) & 0xffff] = el.value
            if pcid != 1 or type(msg).__name__ != 'CStoreRQMessage':
                v('wrong-message-class-or-context', '%s on %r' % (type(msg).__name__, pcid))
            elif str(got.get(0x1000)) != fields[0x1000] or got.get(0x0110) != 77:
                v('command-set-differs', repr(got))
            elif bytes(msg.data_set or b'') != data:
                v('data-bytes-differ', 'got %d bytes, sent %d' % (len(msg.data_set or b''),
                                                                  len(data)))
        sim = world.sim
        return {'violations': viol, 'stats': dict(sim.stats), 'digest': sim.digest.hexdigest(),
                'sched_sig': 'bac/%s/%s/%s' % (case['k'], case['dsize'], case['maxlen']),
                'steps': sim.steps, 'vsecs': sim.now - 1000.0, 'nontrivial': True,
                'sets': {}, 'sample': {'case': case}}
    finally:
        world.close()


_p1_cases = cases


def cases(tier, seed):      # noqa: F811
    # the real accepting association layer in front of the decoder: 2-3 requestors each send a
    # C-STORE that is received into a file the moment they have read the A-ASSOCIATE-AC, with
    # line-level pre-emption (and parking) in the accepting code - the decoder needs the
    # negotiated context at the last command fragment (C09's hot scenario, run here for the
    # file-backed reception clause)
    rh = random.Random('c07h/%d' % seed)
    for i in range(40 if tier == 'quick' else 2000):
        reqs = []
        for _ in range(rh.choice([2, 3])):
            ids = rh.sample(range(1, 64, 2), rh.choice([1, 2, 4]))
            reqs.append([[pid, rh.randrange(2), [0, 1]] for pid in ids])
        yield dict(assoc_layer=True, code=0x0001, seed=seed * 100291 + i, inner=dict(
            hot=True, served=None, sup=[0, 1], reqs=reqs, ctx=reqs[0],
            seed=seed * 100291 + i))
    for c in _p1_cases(tier, seed):
        yield c


def run_case(case):
    if case.get('assoc_layer'):
        from . import c09
        r = c09._hot_case(dict(case['inner'], served=[c09.S1, c09.S2]))
        for v_ in r.get('violations', []):
            v_['sig'] = 'C07 behind-the-accepting-layer ' + v_['sig'].replace('C09 ', '')
        return r
    if case.get('behind_ac'):
        return _behind_ac(case)
    rnd = random.Random('c07r/%s/%s' % (case['seed'], case['code']))
    code = case['code']
    has_data = case['dsize'] > 0
    fields = _cmd_fields(code, has_data, rnd)
    pcid = case.get('pcid', 3 if case['mode'] == 'file' else 1)
    data = _dataset(case['dsize'], TS[pcid]) if has_data else None
    cmd = rc.enc_command(fields)
    pdvs = rc.fragment_message(pcid, cmd, data, case['maxlen'])
    k = len(pdvs)
    if case['comp'] == 'all' and k <= case.get('kmax', 7):
        comps = list(compositions(k))
    else:
        comps = []
        for _ in range(3):
            sizes, left = [], k
            while left:
                g = rnd.randint(1, min(left, 4))
                sizes.append(g)
                left -= g
            comps.append(sizes)
        comps.append([k])
        comps.append([1] * k)
    viol = []
    stats = {}
    digests = []
    steps = vsecs = 0
    keys = []
    for comp in comps:
        r = _one(case, comp, fields, cmd, data, pdvs, pcid, rnd)
        viol += r['violations']
        for kk, vv in r['stats'].items():
            stats[kk] = stats.get(kk, 0) + vv
        digests.append(r['digest'])
        steps += r['steps']
        vsecs += r['vsecs']
        keys.append('%04x/%d/%d/%s/%s/%s' % (code, case['dsize'], case['maxlen'],
                                             '.'.join(map(str, comp)), case['mode'],
                                             case['state']))
        if viol:
            break
    seen, uniq = set(), []
    for v in viol:
        if v['sig'] not in seen:
            seen.add(v['sig'])
            uniq.append(v)
    import hashlib
    return {'violations': uniq, 'stats': stats,
            'digest': hashlib.sha1(''.join(digests).encode()).hexdigest(),
            'sched_sig': '|'.join(keys)[:300], 'steps': steps, 'vsecs': vsecs,
            'nontrivial': k >= 2, 'sets': {'compositions': keys, 'command_fields':
                                           ['%04x' % code]},
            'sample': {'case': case, 'fragments': k, 'compositions_run': len(comps),
                       'first_composition': comps[0]}}


def _dataset(n, ts):
    n = max(8, n - n % 2)
    if ts == rc.IMPLICIT_LE:
        return struct.pack('<HHI', 0x0010, 0x0010, n - 8) + b'A' * (n - 8)
    if ts == rc.EXPLICIT_LE:
        return struct.pack('<HH2sH', 0x0010, 0x0010, b'PN', n - 8) + b'A' * (n - 8)
    return struct.pack('>HH2sH', 0x0010, 0x0010, b'PN', n - 8) + b'A' * (n - 8)


def _read_meta(b):
    """Tiny explicit-VR-LE reader for the Part-10 preamble + group 0002.
    -> (dict tag->value bytes, offset where the data set starts) or raises ValueError."""
    if len(b) < 132 or b[128:132] != b'DICM' or b[:128] != b'\0' * 128:
        raise ValueError('no preamble/DICM')
    p = 132
    out = {}
    end = None
    while p < len(b):
        if len(b) - p < 8:
            raise ValueError('truncated meta element')
        g, e = struct.unpack('<HH', b[p:p + 4])
        if g != 2:
            break
        vr = b[p + 4:p + 6]
        if vr in (b'OB', b'OW', b'SQ', b'UN', b'UT'):
            ln = struct.unpack('<I', b[p + 8:p + 12])[0]
            p += 12
        else:
            ln = struct.unpack('<H', b[p + 6:p + 8])[0]
            p += 8
        out[(g, e)] = b[p:p + ln]
        p += ln
        if (g, e) == (2, 0):
            end = p + struct.unpack('<I', out[(2, 0)])[0]
    if end is not None and end != p:
        raise ValueError('meta group length says %d, elements end at %d' % (end, p))
    return out, p


def _one(case, comp, fields, cmd, data, pdvs, pcid, rnd):
    from pynetdicom2 import applicationentity, asceprovider
    from pydicom import uid
    code = case['code']
    viol = []
    role = 'acceptor' if case['state'] == 'Sta6' else 'requestor'
    file_mode = case['mode'] == 'file'
    ae = applicationentity.ClientAE('RCV')
    rig = None

    def v(rule, detail):
        viol.append({'sig': 'C07 %s mode=%s' % (rule, case['mode']),
                     'detail': '%s\ncase %r composition %r\nloop tb %s' % (
                         detail, case, comp, rig.task.tb if rig else None)})
    pre = None
    if ((case.get('rival') and file_mode) or case.get('consumer')) and not case.get('fault'):
        # installed before the provider thread exists: a thread is traced from its start only
        from .. import preempt
        pre = preempt.Preempter(None, prob=0.5, park_prob=0.3, park_max=0.05,
                                funcs={'write_meta', 'get_file', 'process', 'dt_2', 'ar_6'},
                                files=('applicationentity.py',))
        pre.install()
    START = {'n': 0}
    get_file_cb = ae.get_file
    if case.get('offset') and file_mode:
        # the application keeps its own storage file: earlier content in front, and the
        # documented second return value ("file starting position") is not zero
        START['n'] = 37 + case['seed'] % 400

        def get_file_cb(ctx, command_set):      # noqa: F811
            from pynetdicom2 import applicationentity as _ae
            fp = rig.world.fs.tempfile_ns().TemporaryFile()
            try:
                fp.write(b'E' * START['n'])
                start = fp.tell()
                _ae.write_meta(fp, command_set, ctx.supported_ts)
            except Exception:
                fp.close()      # as AEBase.get_file does: the callback owns the file until it returns
                raise
            return fp, start
    try:
        rig = Rig('c07/%s/%s' % (case['seed'], '.'.join(map(str, comp))), role=role,
                  store_in_file={CT} if file_mode else set(), get_file_cb=get_file_cb,
                  with_fs=True)
    except BaseException:
        if pre is not None:
            pre.uninstall()
        raise
    if pre is not None:
        pre.sim = rig.sim
    drv = c05.Driver(role, None, rig=rig)
    fsobj = rig.world.fs
    try:
        prefix = ['p:rq', 'u:ac'] if role == 'acceptor' else ['u:assoc', 'p:ac', 'u:relrq']
        for ev in prefix:
            if drv.step(ev):
                return _ret(rig, [], {})
        ts_uid = uid.UID(TS[pcid])
        rig.provider.accepted_contexts = {
            i: asceprovider.PContextDef(i, uid.UID(CT), uid.UID(TS[i])) for i in (1, 3, 5)}
        if case.get('fault'):
            fsobj.fail_errno = {'ENOSPC': 28, 'EIO': 5}[case['fault'][0]]
            fsobj.fail_write_at = fsobj.nwrites + case['fault'][1]
        if case.get('rival') and file_mode and not case.get('fault'):
            # another association of the same process receives file-backed instances at the same
            # time (its provider thread calls the same get_file / write_meta), with line-level
            # pre-emption and parking inside those functions
            other_ts = [t for t in (rc.IMPLICIT_LE, rc.EXPLICIT_LE, rc.EXPLICIT_BE)
                        if t != TS[pcid]]

            def rival():
                import pydicom
                for j in range(40):
                    cs = pydicom.Dataset()
                    cs.AffectedSOPClassUID = '1.2.840.10008.5.1.4.1.1.4'
                    cs.AffectedSOPInstanceUID = '1.2.826.0.1.7.999.%d' % j
                    ctx2 = asceprovider.PContextDef(5, uid.UID('1.2.840.10008.5.1.4.1.1.4'),
                                                    uid.UID(other_ts[j % 2]))
                    fp2, _st = ae.get_file(ctx2, cs)
                    fp2.close()
                    rig.sim.sleep(0.01)
            rig.sim.spawn(rival, name='rival', role='user')
        taken = []
        early = []
        if case.get('consumer') and not case.get('fault'):
            # the local user waits in receive() on its own thread and looks at the message the
            # moment it is handed over: it must be complete THEN, not a little later
            def consumer():
                q_ = rig.provider.to_service_user
                while True:
                    item = q_.get(True, None)
                    if isinstance(item, tuple):
                        msg_ = item[0]
                        ds_ = msg_.data_set
                        if data is not None and ds_ is None:
                            early.append('no data set yet')
                        elif hasattr(ds_, 'tell') and ds_.tell() != START['n']:
                            early.append('file at %d, not at its start %d' % (ds_.tell(),
                                                                              START['n']))
                    taken.append(item)
            cons_task = rig.sim.spawn(consumer, name='consumer', role='user')
        ref = rc.Reassembler()
        i = 0
        delivered_at = None
        faulted = False
        for gi, g in enumerate(comp):
            group = pdvs[i:i + g]
            i += g
            raw = rc.enc_pdata(group)
            expect_done = False
            for pdv in group:
                if ref.feed(pdv) is not None:
                    expect_done = True
            out_raws = []
            if case.get('duplex') and case['state'] == 'Sta6' and not case.get('fault'):
                # full duplex: the local user hands over an outgoing message (a generator of
                # P-DATA-TF PDUs, as Association.send does) right before the peer's next PDU
                # arrives, so both are pending in the same turns of the provider loop
                from .. import lib
                objs = []
                for j in range(3):
                    payload = b'OUT-%03d-%d-' % (gi, j) + b'o' * (4 + 2 * j)
                    objs.append((5, 2 if j == 2 else 0, payload))
                    out_raws.append(rc.enc_pdata([objs[-1]]))
                rig.wire_take()
                wire_mark = len(rig.wire_bytes)
                rig.user((lib.pdata([o]) for o in objs))
            # seeded segmentation of this PDU
            cuts = sorted(rnd.sample(range(1, len(raw)), min(rnd.choice([0, 0, 1, 2]), len(raw) - 1)))
            prev = 0
            for c in cuts + [len(raw)]:
                rig.peer_bytes(raw[prev:c])
                prev = c
                if rnd.random() < 0.3:
                    rig.advance(0.06)
            rig.settle()
            inds = rig.take_indications()
            if case.get('consumer') and not case.get('fault'):
                inds = inds + taken[:]
                del taken[:]
                if cons_task.exc is not None:
                    return {'harness_error': 'consumer died: %s' % cons_task.tb, 'violations': [],
                            'stats': {}, 'digest': '', 'steps': 0, 'vsecs': 0}
                if early:
                    v('completion-signalled-before-message-complete',
                      'at the moment the user got the message: %s' % early[0])
                    break
            if rig.loop_dead():
                v('loop-died exc=%s' % (type(rig.task.exc).__name__ if rig.task.exc else '-'), '')
                return _ret(rig, viol, {})
            if out_raws:
                rig.wire_take()
                sent = rig.wire_bytes[wire_mark:]
                if sent != b''.join(out_raws):
                    got_p, _rem = rc.parse_stream(sent)
                    v('outgoing-message-damaged-by-incoming-traffic',
                      'queued %d PDUs (%d bytes), wire has %r (%d bytes)' % (
                          len(out_raws), len(b''.join(out_raws)), [p_['kind'] for p_ in got_p],
                          len(sent)))
                    break
            if fsobj.fail_write_at is not None and fsobj.nwrites >= fsobj.fail_write_at:
                faulted = True
            if faulted:
                # disk error: no message may be delivered; association must end orderly
                if any(isinstance(x, tuple) for x in inds):
                    v('message-delivered-despite-write-error', '')
                break
            dec = rig.sm.dimse_decoder
            if not expect_done:
                if inds:
                    v('delivered-before-last-fragment', 'after PDU %d of %d: %r' % (
                        gi + 1, len(comp), [c05._describe_user(x) for x in inds]))
                    break
                if dec is None or not dec.receiving:
                    v('decoder-not-receiving-before-last-fragment', 'after PDU %d' % (gi + 1))
                    break
            else:
                if len(inds) != 1 or not isinstance(inds[0], tuple):
                    v('not-delivered-at-last-fragment', 'after PDU %d of %d: %r state %s' % (
                        gi + 1, len(comp), [c05._describe_user(x) for x in inds], rig.state()))
                    break
                delivered_at = gi
                _check_msg(v, inds[0], code, fields, data, pcid, file_mode and code == 0x0001 and
                           data is not None, ts_uid, fsobj, START['n'])
                if rig.sm.dimse_decoder is not None:
                    v('decoder-kept-after-completion', '')
                if gi != len(comp) - 1:
                    v('completed-before-all-pdus', '')
        if faulted:
            rig.settle()
            rig.advance(c05.ARTIM + 1.0)
            rig.peer_fin() if not rig.sock_gone() else None
            rig.settle()
            if rig.loop_dead():
                v('loop-died-after-write-error exc=%s' % (
                    type(rig.task.exc).__name__ if rig.task.exc else '-'), '')
            elif rig.state() != 'Sta1' or not rig.sock_gone():
                v('not-ended-orderly-after-write-error', 'state %s' % rig.state())
            opened = [f for f in fsobj.open_files if f.path.startswith('/tmp/sim-temp') and
                      not f.closed]
            if opened:
                v('file-left-open-after-write-error', repr([f.path for f in opened]))
        return _ret(rig, viol, {'fault.disk_%s' % case['fault'][0]: 1} if faulted else {})
    finally:
        if pre is not None:
            pre.uninstall()
        rig.close()


def _ret(rig, viol, extra):
    sim = rig.sim
    st = dict(sim.stats)
    st.update(extra)
    return {'violations': viol, 'stats': st, 'digest': sim.digest.hexdigest(), 'steps': sim.steps,
            'vsecs': sim.now - 1000.0}


def _check_msg(v, item, code, fields, data, pcid, as_file, ts_uid, fsobj, start=0):
    from pynetdicom2 import dimsemessages
    msg, got_pcid = item
    if got_pcid != pcid:
        v('wrong-context-id', 'got %r want %r' % (got_pcid, pcid))
    want_cls = dimsemessages.MESSAGE_TYPE[code]
    if type(msg) is not want_cls:
        v('wrong-message-class', 'got %s want %s' % (type(msg).__name__, want_cls.__name__))
    # command set element-wise
    got = {}
    for el in msg.command_set:
        if int(el.tag) >> 16 == 0 and int(el.tag) & 0xffff:
            val = el.value
            got[int(el.tag) & 0xffff] = int(val) if isinstance(val, int) else str(val)
    want = {k: (x if isinstance(x, int) else str(x)) for k, x in fields.items()}
    for d_ in (got, want):
        if 0x0800 in d_:
            # what the field says is compared, not how the sender chose to say "present"
            d_[0x0800] = 'none' if d_[0x0800] == 0x0101 else 'present'
    if got != want:
        v('command-set-differs', 'got %r\nwant %r' % (got, want))
    ds = msg.data_set
    if data is None:
        if ds:
            v('data-set-where-none-was-sent', repr(ds)[:80])
        return
    if not as_file:
        if not isinstance(ds, (bytes, bytearray)) or bytes(ds) != data:
            v('data-bytes-differ', 'got %r... want %r...' % (
                bytes(ds)[:20] if isinstance(ds, (bytes, bytearray)) else type(ds), data[:20]))
        return
    if isinstance(ds, (bytes, bytearray)) or not hasattr(ds, 'read'):
        v('not-file-backed', 'data_set is %s' % type(ds).__name__)
        return
    try:
        if ds.tell() != start:
            v('file-position-not-at-start', 'tell() = %d, get_file said %d' % (ds.tell(), start))
        content = bytes(ds.data)[start:]
        meta, off = _read_meta(content)
    except Exception as e:  # pylint: disable=broad-except
        v('file-not-a-readable-part10-file', repr(e))
        return
    def s(tag):
        return meta.get(tag, b'').rstrip(b'\0').decode('ascii', 'replace')
    if s((2, 0x10)) != str(ts_uid):
        v('file-meta-transfer-syntax-wrong', 'meta %r negotiated %r' % (s((2, 0x10)), str(ts_uid)))
    if s((2, 2)) != fields.get(0x0002):
        v('file-meta-sop-class-wrong', 'meta %r sent %r' % (s((2, 2)), fields.get(0x0002)))
    if s((2, 3)) != fields.get(0x1000):
        v('file-meta-sop-instance-wrong', 'meta %r sent %r' % (s((2, 3)), fields.get(0x1000)))
    if content[off:] != data:
        v('file-data-bytes-differ', 'file has %d bytes after meta, sent %d' % (
            len(content) - off, len(data)))
    ds.close()
