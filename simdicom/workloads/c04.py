"""C04 -- every Table 9-10 cell: real StateMachine.action() on a real provider, against R-fsm.
Exhaustive over 13 states x 19 events x 2 roles x primitive variants x ARTIM prior state,
entered both by state assignment (after a real role-establishing prefix) and, where a history
exists, by driving the running provider loop there."""
from .. import refcodec as rc, refmodel as rm, lib
from ..rig import Rig, canon, STATE_NAMES
from .. import convo

PROPERTY = 'C04'
LEVEL = 'fault_enumeration'
BUDGET = {'quick': 120, 'thorough': 600}
CHUNK = 40
EXHAUSTIVE = {'quick': True, 'thorough': True}
RULE = ('cases = role x state x event x primitive variant x ARTIM-prior x route (state assigned '
        'after a real role-establishing prefix | state reached by a real history through the '
        'running loop); every one of the 247 cells is evaluated for both roles; non-trivial = the '
        'cell is one of the 123 defined cells; distinct = distinct (role, state, event, variant, '
        'timer-prior, route)'
        '; every cell with bytes of a following PDU in the receive buffer; every writing cell also with a transport failing at the write; Sta13 also reached through AA-1/AA-7/AA-8; route slow-transport: (Sta6,Evt9) with a peer that does not read for 5.5-61 s; closing cells with the connection reset right behind the PDU; route connect-fails: (Sta1,Evt1)+(Sta4,Evt17) for seven ways connect() fails')
ASSUMPTIONS = ['R-fsm transcribed from PS3.8 Table 9-10 (123 defined cells, asserted)',
               'observation through current_state, timer._start_time, dul_socket, to_service_user '
               'and the bytes that reached the peer endpoint',
               'AE-6 may either indicate the request or reject it (both branches of the standard)']

ECHO_CMD = rc.enc_command({0x0002: rc.VERIFICATION, 0x0100: 0x0030, 0x0110: 9, 0x0800: 0x0101})
RAW = {
    'Evt3': [('ac', rc.enc_assoc_ac(results=((1, 0, rc.IMPLICIT_LE),), max_length=4096))],
    'Evt4': [('rj111', rc.enc_assoc_rj(1, 1, 1)), ('rj232', rc.enc_assoc_rj(2, 3, 2))],
    'Evt6': [('rq', rc.enc_assoc_rq(contexts=convo.CTXS, max_length=4096)),
             # protocol-version field other than 0001H (bit 0 clear / further bits set): a
             # provider may find such a request unacceptable - then the other branch of AE-6
             ('rq-v2', rc.enc_assoc_rq(contexts=convo.CTXS, max_length=4096, protocol=2)),
             ('rq-v3', rc.enc_assoc_rq(contexts=convo.CTXS, max_length=4096, protocol=3))],
    'Evt10': [('pdata-complete', rc.enc_pdata([(1, 3, ECHO_CMD)])),
              ('pdata-partial', rc.enc_pdata([(1, 1, ECHO_CMD[:10])])),
              ('pdata-rest', rc.enc_pdata([(1, 3, ECHO_CMD[10:])]))],
    'Evt12': [('relrq', rc.enc_release_rq())],
    'Evt13': [('relrp', rc.enc_release_rp())],
    'Evt16': [('abort00', rc.enc_abort(0, 0)), ('abort26', rc.enc_abort(2, 6))],
}
USER = {
    'Evt1': [('rq', lambda: lib.assoc_rq(contexts=convo.CTXS, max_length=4096),
              rc.enc_assoc_rq(contexts=convo.CTXS, max_length=4096))],
    'Evt7': [('ac', lambda: lib.assoc_ac(results=((1, 0, rc.IMPLICIT_LE),), max_length=4096),
              rc.enc_assoc_ac(results=((1, 0, rc.IMPLICIT_LE),), max_length=4096))],
    'Evt8': [('rj111', lambda: lib.assoc_rj(1, 1, 1), rc.enc_assoc_rj(1, 1, 1)),
             ('rj217', lambda: lib.assoc_rj(2, 1, 7), rc.enc_assoc_rj(2, 1, 7))],
    'Evt9': [('pdata1', lambda: lib.pdata([(1, 3, ECHO_CMD)]), rc.enc_pdata([(1, 3, ECHO_CMD)])),
             ('pdata2', lambda: lib.pdata([(1, 1, ECHO_CMD[:8]), (1, 3, ECHO_CMD[8:])]),
              rc.enc_pdata([(1, 1, ECHO_CMD[:8]), (1, 3, ECHO_CMD[8:])]))],
    'Evt11': [('relrq', lib.release_rq, rc.enc_release_rq())],
    'Evt14': [('relrp', lib.release_rp, rc.enc_release_rp())],
    'Evt15': [('abort00', lambda: lib.abort(0, 0), rc.enc_abort(0, 0)),
              ('abort23', lambda: lib.abort(2, 3), rc.enc_abort(2, 3))],
}
OTHER = {'Evt2': ['rq'], 'Evt5': ['none'], 'Evt17': ['none', 'stale'],
         'Evt18': ['none', 'stale'], 'Evt19': ['none', 'stale']}

# histories through the running loop: role -> state -> list of steps
HIST = {
    'acceptor': {
        'Sta2': [],
        'Sta3': [('peer', 'rq')],
        'Sta6': [('peer', 'rq'), ('user', 'ac')],
        'Sta7': [('peer', 'rq'), ('user', 'ac'), ('user', 'relrq')],
        'Sta8': [('peer', 'rq'), ('user', 'ac'), ('peer', 'relrq')],
        'Sta13': [('peer', 'rq'), ('user', 'ac'), ('peer', 'relrq'), ('user', 'relrp')],
        'Sta13b': [('peer', 'rq'), ('user', 'rj')],
        # Sta13 reached through the provider's own abort actions (an A-ABORT has already been
        # sent on this connection): AA-1 in Sta2, AA-8 in Sta6, AA-8 in Sta3, and AA-7 once
        'Sta13c': [('peer', 'junk')],
        'Sta13d': [('peer', 'rq'), ('user', 'ac'), ('peer', 'ac')],
        'Sta13e': [('peer', 'rq'), ('peer', 'rq')],
        'Sta13f': [('peer', 'rq'), ('user', 'rj'), ('peer', 'junk')],
        'Sta6p': [('peer', 'rq'), ('user', 'ac'), ('peer', 'part')],
        'Sta7p': [('peer', 'rq'), ('user', 'ac'), ('peer', 'part'), ('user', 'relrq')],
        'Sta10': [('peer', 'rq'), ('user', 'ac'), ('user', 'relrq'), ('peer', 'relrq')],
        'Sta12': [('peer', 'rq'), ('user', 'ac'), ('user', 'relrq'), ('peer', 'relrq'),
                  ('peer', 'relrp')],
    },
    'requestor': {
        'Sta5': [('user', 'rq')],
        'Sta6': [('user', 'rq'), ('peer', 'ac')],
        'Sta7': [('user', 'rq'), ('peer', 'ac'), ('user', 'relrq')],
        'Sta7p': [('user', 'rq'), ('peer', 'ac'), ('peer', 'part'), ('user', 'relrq')],
        'Sta8': [('user', 'rq'), ('peer', 'ac'), ('peer', 'relrq')],
        'Sta13': [('user', 'rq'), ('peer', 'ac'), ('peer', 'relrq'), ('user', 'relrp')],
        'Sta13d': [('user', 'rq'), ('peer', 'ac'), ('peer', 'ac')],
        'Sta13e': [('user', 'rq'), ('peer', 'relrq')],
        'Sta9': [('user', 'rq'), ('peer', 'ac'), ('user', 'relrq'), ('peer', 'relrq')],
        'Sta11': [('user', 'rq'), ('peer', 'ac'), ('user', 'relrq'), ('peer', 'relrq'),
                  ('user', 'relrp')],
    },
}


def variants(event):
    if event in RAW:
        return [v[0] for v in RAW[event]]
    if event in USER:
        return [v[0] for v in USER[event]]
    return OTHER[event]


def cases(tier, seed):
    for role in ('acceptor', 'requestor'):
        for state in rm.STATES:
            for event in rm.EVENTS:
                for var in variants(event):
                    if var == 'pdata-rest':
                        continue        # only meaningful while a message is half received
                    for timer in ('run', 'stop'):
                        yield dict(role=role, state=state, event=event, var=var, timer=timer,
                                   route='assign')
                    # the same cell with a transport that fails the moment the action writes:
                    # the provider loop answers a socket error inside an action with "transport
                    # connection closed" in the SAME state, which is only right if the action
                    # has had no other effect by then
                    yield dict(role=role, state=state, event=event, var=var, timer='run',
                               route='assign', wfail=True)
                    if event in ('Evt4', 'Evt13', 'Evt16', 'Evt18'):
                        # the peer has reset the connection right behind its PDU (SO_LINGER 0,
                        # killed process): a closing action still does what its cell says, once
                        yield dict(role=role, state=state, event=event, var=var, timer='run',
                                   route='assign', rst_behind=True)
        for hname in HIST[role]:
            pending = hname.endswith('p')
            for event in rm.EVENTS:
                for var in variants(event):
                    if var == 'pdata-rest' and not pending:
                        continue
                    if pending and event == 'Evt10' and var != 'pdata-rest':
                        continue        # a second message inside an open one is DIMSE garbage (C12)
                    yield dict(role=role, state=hname.rstrip('bcdefp'), event=event, var=var,
                               timer='asis', route='history:' + hname)


_cells_cases = cases


def cases(tier, seed):      # noqa: F811
    for c in _cells_cases(tier, seed):
        yield c
    # cells under simultaneous events: a PDU from the peer and a primitive from the local user
    # become pending in the same turn of the provider loop - each must still get the action of
    # ITS cell, with ITS PDU / primitive (C05's concurrent bursts, run here for the table)
    for i in range(200 if tier == 'quick' else 4000):
        yield dict(role='acceptor' if i % 2 else 'requestor', state='-', event='-', var='-',
                   timer='asis', route='simultaneous', seed=seed * 100003 + i)
    # cell (Sta6, Evt9) DT-1 on a transport that takes the data slowly (the peer does not read
    # for a while): the action is still "send the P-DATA-TF PDU, stay in Sta6" in both roles
    for role in ('acceptor', 'requestor'):
        for stall in (5.5, 8.0, 20.0, 61.0):
            for cap in (512, 2048):
                yield dict(role=role, state='Sta6', event='Evt9', var='-', timer='asis',
                           route='slow-transport', stall=stall, cap=cap, seed=seed)


_slow_cases = cases


def cases(tier, seed):      # noqa: F811
    for c in _slow_cases(tier, seed):
        yield c
    # cells (Sta1,Evt1) AE-1 + (Sta4,Evt17) AA-4 through the running loop: the transport
    # connection can not be opened, for every way connect() fails - the user is told
    # (A-P-ABORT), the provider is back in Sta1 without a connection (C13's family, run here
    # for the table)
    for f in ('refused', 'timeout', 'netunreach', 'hostunreach', 'addrnotavail', 'gaierror',
              'emfile'):
        yield dict(role='requestor', state='Sta1', event='Evt1', var=f, timer='asis',
                   route='connect-fails', seed=seed)


def _lib_pdu(raw):
    from pynetdicom2 import dulprovider
    cls, _ = dulprovider.PDU_TYPES[raw[0]]
    return cls.decode(raw)


def _peer_raw(name):
    return {'rq': RAW['Evt6'][0][1], 'ac': RAW['Evt3'][0][1], 'relrq': RAW['Evt12'][0][1],
            'relrp': RAW['Evt13'][0][1], 'part': RAW['Evt10'][1][1],
            'junk': b'\x09\x00\x00\x00\x00\x02\x00\x00'}[name]


def _user_prim(name):
    return {'rq': USER['Evt1'][0][1], 'ac': USER['Evt7'][0][1], 'rj': USER['Evt8'][0][1],
            'relrq': lib.release_rq, 'relrp': lib.release_rp}[name]()


def _establish(rig, role, state, route):
    """Bring the provider into (role, state).  Returns an error string or None."""
    from pynetdicom2 import fsm
    sm = rig.sm
    if route == 'assign':
        if state == 'Sta1':
            return None            # fresh: nothing has happened yet
        if role == 'acceptor':
            rig.provider.event.clear()
            sm.action(fsm.Events.EVT_5)           # real AE-5 (socket was given)
        else:
            rig.provider.primitive = _user_prim('rq')
            sm.action(fsm.Events.EVT_1)           # real AE-1: connect
            if state != 'Sta4':
                sm.action(fsm.Events.EVT_2)       # real AE-2
                rig.wire_take()
        sm.current_state = STATE_NAMES.index(state)
        return None
    hname = route.split(':', 1)[1]
    for who, what in HIST[role][hname]:
        if who == 'peer':
            if rig.prov_sock is None:
                return 'no connection for history step'
            rig.peer_bytes(_peer_raw(what))
        else:
            rig.user(_user_prim(what))
        if not rig.settle():
            return 'history did not settle'
        if rig.loop_dead():
            return 'history: provider loop died: %s' % (rig.task.tb or '')[-300:]
    if not hname and not rig.settle():
        return 'not settled'
    if hname == 'Sta2':
        rig.settle()
    if rig.state() != state:
        return 'history reached %s, not %s' % (rig.state(), state)
    rig.wire_take()
    rig.take_indications()
    return None


def run_case(case):
    if case['route'] == 'connect-fails':
        from . import c13
        r = c13.run_case(dict(convo='R1_echo', cut=None, ending='silence', kill=None,
                              connect=case['var'], seed='c04cf/%s' % case['seed']))
        for v_ in r.get('violations', []):
            v_['sig'] = 'C04 cells=(Sta1,Evt1)+(Sta4,Evt17) ' + v_['sig'].replace('C13 ', '')
        r['sets'] = {'cells_evaluated': ['Sta1,Evt1', 'Sta4,Evt17']}
        return r
    if case['route'] == 'slow-transport':
        from . import c05
        r = c05.run_stalled_peer(dict(role=case['role'], mode='stalled-peer', stall=case['stall'],
                                      cap=case['cap'], n=16, seed='c04st/%s' % case['seed']))
        for v_ in r.get('violations', []):
            v_['sig'] = 'C04 cell=(Sta6,Evt9) slow-transport ' + v_['sig'].replace('C05 ', '')
        r['sets'] = {'cells_evaluated': ['Sta6,Evt9']}
        return r
    if case['route'] == 'simultaneous':
        from . import c05
        inner = case.get('inner') or dict(role=case['role'], walk=8, mode='concurrent',
                                          seed='c04sim/%s' % case['seed'])
        r = c05.run_concurrent(inner)
        for v_ in r.get('violations', []):
            v_['sig'] = 'C04 simultaneous-events ' + v_['sig'].replace('C05 ', '')
            if 'explicit' in v_:
                # the burst made explicit (so that the replay does not depend on the walk)
                v_['explicit'] = dict(case, inner=v_['explicit'])
        r['sets'] = {}
        return r
    from pynetdicom2 import fsm
    role, state, event, var, route = (case['role'], case['state'], case['event'], case['var'],
                                      case['route'])
    requestor = role == 'requestor'
    exp = rm.effects(state, event, requestor)
    key = '%s/%s/%s/%s/%s/%s%s' % (role, state, event, var, case['timer'], route, '/rst' if case.get('rst_behind') else '')
    res = {'violations': [], 'stats': {}, 'nontrivial': exp is not None, 'sched_sig': key,
           'sets': {'cells_evaluated': ['%s,%s' % (state, event)]}}
    if exp is not None:
        res['sets']['defined_cells_evaluated'] = ['%s,%s' % (state, event)]
    rig = Rig('c04', role=role, policy='first')
    try:
        if route != 'assign':
            if state == 'Sta2' and role == 'acceptor':
                pass
        err = _establish(rig, role, state, route)
        if err is not None:
            hcell = 'history=%s' % route
            res['violations'].append({
                'sig': 'C04 state-unreachable-by-history role=%s %s' % (role, hcell),
                'detail': '%s\n%s' % (err, case)})
            return res
        sim = rig.sim
        prov = rig.provider
        sm = rig.sm
        # primitive slot
        raw = None
        if event in RAW:
            raw = dict(RAW[event])[var]
            prim = _lib_pdu(raw)
        elif event in USER:
            _, mk, raw = [u for u in USER[event] if u[0] == var][0]
            prim = mk()
        elif var == 'rq':
            # Evt2 (transport connect confirmation): the slot still holds the A-ASSOCIATE request
            prim = _user_prim('rq')
            raw = USER['Evt1'][0][2]
        else:
            prim = None if var == 'none' else _lib_pdu(RAW['Evt10'][0][1])
        prov.primitive = prim
        prim_canon = canon(prim)
        # timer prior
        if case['timer'] == 'run':
            prov.timer._start_time = sim.now
        elif case['timer'] == 'stop':
            prov.timer._start_time = None
        sim.now += 1.0
        t_before = prov.timer._start_time
        sock_before = prov.dul_socket
        had_sock = sock_before is not None
        connects_before = rig.connects
        rig.wire_take()
        rig.take_indications()
        wire0 = len(rig.wire_bytes)
        exc = None
        # bytes of the peer's next PDU that have been read but not framed yet: an action has no
        # business with them (unless it closes the connection)
        marker = b'\x07\x00\x00\x00\x00\x04\x00'
        had_buf = hasattr(prov, 'raw_pdu') and isinstance(prov.raw_pdu, (bytes, bytearray))
        if had_buf:
            prov.raw_pdu = marker
        if case.get('rst_behind'):
            if exp is None or exp['action'] not in ('AE-4', 'AR-3', 'AA-2', 'AA-3') or \
                    prov.dul_socket is None:
                return res
            rig.peer_rst_behind()
        wrote = []
        if case.get('wfail') and prov.dul_socket is not None:
            sock_ = prov.dul_socket

            def failing_sendall(data, _s=sock_):
                wrote.append(len(data))
                raise ConnectionResetError(104, 'Connection reset by peer')
            sock_.sendall = failing_sendall
        try:
            sm.action(getattr(fsm.Events, 'EVT_' + event[3:]))
        except Exception as e:  # pylint: disable=broad-except
            exc = e
        if case.get('wfail'):
            if prov.dul_socket is not None and 'sendall' in vars(prov.dul_socket):
                del prov.dul_socket.sendall
            if not wrote:
                # the action did not write: nothing to learn here beyond the plain cell
                return res
            inds_ = rig.take_indications()
            bad_ = []
            if not isinstance(exc, OSError):
                bad_.append('write-error-swallowed')
            if inds_:
                bad_.append('indication-despite-failed-write')
            if prov.timer._start_time != t_before:
                bad_.append('artim-touched-despite-failed-write')
            if rig.state() != state:
                bad_.append('state-changed-despite-failed-write')
            res['digest'] = rig.sim.digest.hexdigest() + repr(bad_)
            for b in bad_:
                res['violations'].append({
                    'sig': 'C04 cell=(%s,%s) role=%s action=%s mismatch=%s' % (
                        state, event, role, exp['action'] if exp else 'undefined', b),
                    'detail': 'case %r\nexpected %r\nexception %r indications %r' % (
                        case, exp, exc, [_ik(x) for x in inds_])})
            return res
        rig.wire_take()
        wire = rig.wire_bytes[wire0:]
        inds = rig.take_indications()
        pdus, rem = rc.parse_stream(wire)
        st_after = rig.state()
        t_after = prov.timer._start_time
        closed_now = (had_sock and sock_before.closed)
        sockslot_none = prov.dul_socket is None
        obs = {'wire': [p['kind'] for p in pdus], 'user': [_ik(x) for x in inds],
               'closed': closed_now, 'state': st_after,
               'timer': ('none' if t_after is None else ('fresh' if t_after == sim.now else 'old')),
               'exc': type(exc).__name__ if exc else None}
        res['sample'] = {'case': case, 'expected': exp, 'observed': obs}
        res['digest'] = rig.sim.digest.hexdigest() + repr(sorted(obs.items()))
        bad = []
        if had_buf and not closed_now and prov.dul_socket is not None and \
                bytes(getattr(prov, 'raw_pdu', b'')) != marker:
            bad.append('receive-buffer-touched')
        if exp is None:
            # undefined cell: no effect at all (raising is fine)
            if wire:
                bad.append('wire')
            if inds:
                bad.append('user')
            if closed_now or (had_sock and sockslot_none):
                bad.append('close')
            if t_after != t_before:
                bad.append('artim')
            if st_after != state:
                bad.append('state')
            if rig.connects != connects_before:
                bad.append('connect')
        else:
            if exc is not None:
                bad.append('raised:%s' % type(exc).__name__)
            else:
                ae6_alt = False
                if exp['action'] == 'AE-6' and [p['kind'] for p in pdus] == ['A-ASSOCIATE-RJ']:
                    ae6_alt = True      # "not acceptable" branch of AE-6
                    if inds or st_after != 'Sta13' or obs['timer'] != 'fresh':
                        bad.append('ae6-reject-branch')
                if not ae6_alt:
                    bad += _check_wire(exp, event, pdus, rem, raw, prim, rig, connects_before)
                    bad += _check_user(exp, inds, prim_canon, prim, var)
                    if exp['close'] != bool(closed_now):
                        bad.append('close')
                    if exp['close'] and not sockslot_none:
                        bad.append('close-slot')
                    want_t = {'start': 'fresh', 'restart': 'fresh', 'stop': 'none'}.get(exp['artim'])
                    if want_t is None:
                        if t_after != t_before:
                            bad.append('artim')
                    elif obs['timer'] != want_t:
                        bad.append('artim')
                    if st_after != exp['next']:
                        bad.append('state')
        for b in bad:
            res['violations'].append({
                'sig': 'C04 cell=(%s,%s) role=%s action=%s mismatch=%s' % (
                    state, event, role, exp['action'] if exp else 'undefined', b),
                'detail': 'case %r\nexpected %r\nobserved %r\nexception %r' % (case, exp, obs, exc)})
        return res
    finally:
        rig.close()


def _ik(x):
    if isinstance(x, tuple):
        return 'DIMSE'
    return rc.PDU_NAMES.get(getattr(x, 'pdu_type', None), type(x).__name__)


def _check_wire(exp, event, pdus, rem, raw, prim, rig, connects_before):
    bad = []
    w = exp['wire']
    kinds = [p['kind'] for p in pdus]
    if rem:
        return ['wire-trailing-bytes']
    if w == 'connect':
        if rig.connects != connects_before + 1:
            bad.append('connect')
        if pdus:
            bad.append('wire')
        return bad
    if rig.connects != connects_before:
        bad.append('connect')
    if w is None:
        if pdus:
            bad.append('wire')
    elif w == 'primitive':
        if len(pdus) != 1 or raw is None or rc.summarize(pdus[0]) != rc.summarize(rc.parse_pdu(raw)):
            bad.append('wire')
    elif w in ('A-RELEASE-RQ', 'A-RELEASE-RP'):
        if kinds != [w]:
            bad.append('wire')
    elif w == 'A-ABORT':
        if kinds != ['A-ABORT']:
            bad.append('wire')
        elif event == 'Evt15' and (pdus[0]['source'], pdus[0]['reason']) != (prim.source,
                                                                              prim.reason_diag):
            bad.append('wire-abort-fields')
    elif w == 'A-ABORT-provider':
        if kinds != ['A-ABORT']:
            bad.append('wire')
        elif pdus[0]['source'] != 2:
            bad.append('wire-abort-source')
    return bad


def _check_user(exp, inds, prim_canon, prim, var):
    u = exp['user']
    if u is None:
        return ['user'] if inds else []
    if u == 'pdu':
        if len(inds) != 1 or canon(inds[0]) != prim_canon:
            return ['user']
        return []
    if u == 'p-abort':
        if len(inds) != 1 or getattr(inds[0], 'pdu_type', None) != 7:
            return ['user']
        return []
    if u == 'pdata':
        if var in ('pdata-complete', 'pdata-rest'):
            if len(inds) != 1 or not isinstance(inds[0], tuple) or inds[0][1] != 1:
                return ['user']
            m = inds[0][0]
            if getattr(m.command_set, 'CommandField', None) != 0x0030 or \
                    getattr(m.command_set, 'MessageID', None) != 9:
                return ['user']
            return []
        return ['user'] if inds else []
    return []
