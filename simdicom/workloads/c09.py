"""C09 -- the acceptor answers every proposed presentation context correctly and serves exactly
the contexts it accepted.  Real AE + AssociationAcceptor + provider; scripted requestor built on
R-codec.  Small universe enumerated exhaustively, larger requests seeded."""
import itertools
import random

from .. import refcodec as rc, peers
from ..world import SimWorld

PROPERTY = 'C09'
LEVEL = 'exploration'
BUDGET = {'quick': 55, 'thorough': 900}
CHUNK = 8
EXHAUSTIVE = {'quick': False, 'thorough': True}
ADDR = ('srvhost', 11112)
S1 = '1.2.840.10008.1.1'
S2 = '1.2.840.10008.5.1.4.1.1.2'
S3 = '1.2.840.10008.5.1.4.1.1.7'
UNSERVED = '1.2.840.10008.5.1.4.1.1.4'
ABSTRACTS = [S1, S2, UNSERVED]
TS4 = [rc.IMPLICIT_LE, rc.EXPLICIT_LE, rc.EXPLICIT_BE, '1.2.840.10008.1.2.4.50']
RULE = ('cases = AE configuration (every subset of 2 served SOP classes x every subset of a '
        'universe of 4 transfer syntaxes) x request (0..3 contexts; abstract syntax served / '
        'unserved; every ordered list of 1..3 transfer syntaxes from the universe): exhaustive '
        'for 0 and 1 contexts (thorough: also 2 contexts over a reduced list set), seeded beyond '
        'incl. up to 128 contexts; every case = one real association whose A-ASSOCIATE-AC is '
        'parsed by R-codec + a probe message on every accepted context + a probe association '
        'for refused/unknown ids; non-trivial = at least one context refused or several TS; '
        'distinct = distinct (configuration, request)'
        '; hot family: 2-3 requestors negotiating with a fresh entity at once under line-level pre-emption, each using its first accepted context immediately with a file-backed C-STORE; re-proposal of an accepted id for an unserved class in a second association; late_add: classes configured between connect and request; readd: a third of the hot cases with another thread applying the same configuration again (add_scp) while the requestors negotiate')
ASSUMPTIONS = ['result code of a refused context is only required to be non-zero',
               'the probe on a refused id may end the association in any way; the requirement is '
               'that no service callable runs']


def ts_lists():
    out = []
    for n in (1, 2, 3):
        out += [list(p) for p in itertools.permutations(range(4), n)]
    return out


def configs():
    for served in ([], [S1], [S2], [S1, S2]):
        for mask in range(16):
            yield served, [i for i in range(4) if mask & (1 << i)]


def cases(tier, seed):
    rnd = random.Random('c09/%d' % seed)
    lists = ts_lists()
    cfgs = list(configs())
    # 0 contexts
    for served, sup in cfgs:
        yield dict(served=served, sup=sup, ctx=[], seed=seed)
    # 1 context: exhaustive in thorough, a seeded sixth in quick
    for served, sup in cfgs:
        for ab in range(3):
            for tl in lists:
                if tier == 'quick' and rnd.random() > 0.17:
                    continue
                yield dict(served=served, sup=sup, ctx=[[1, ab, tl]], seed=seed,
                           scu_first=(len(tl) + ab) % 3 if served else 0)
    if tier == 'thorough':
        short = [l for l in lists if len(l) <= 2]
        for served, sup in cfgs:
            if len(sup) not in (1, 2) or not served:
                continue
            for ab1 in range(3):
                for ab2 in range(3):
                    for t1 in short[::3]:
                        for t2 in short[1::4]:
                            yield dict(served=served, sup=sup,
                                       ctx=[[1, ab1, t1], [3, ab2, t2]], seed=seed)
    # (small and early, so that a budget cut on a loaded machine never drops it) requests that
    # name another application context, with titles of every shape: the reply repeats them
    ra = random.Random('c09a/%d' % seed)
    for i in range(24 if tier == 'quick' else 400):
        served, sup = ra.choice([c for c in cfgs if c[0] and c[1]])
        ids = ra.sample(range(1, 256, 2), ra.choice([1, 2, 3]))
        yield dict(served=served, sup=sup, seed=seed * 100109 + i,
                   ctx=[[pid, ra.randrange(3), ra.choice(lists)] for pid in ids],
                   titles=[ra.choice(['SRV', 'SIXTEEN_CHARS_AE', 'x y', ' LEAD']),
                           ra.choice(['CLI', 'B', 'CALLING_AE_TITLE'])],
                   appctx=ra.choice(['1.2.826.0.1.3680043.8.498.77.1', '1.2.840.10008.3.1.1.1.9']))
    # several requestors negotiate with a FRESH entity at the same instant (whatever the
    # entity builds lazily on first use is built while others already use it), with line-level
    # pre-emption in every function of the association / entity modules
    rh = random.Random('c09h/%d' % seed)
    for i in range(120 if tier == 'quick' else 5000):
        served, sup = rh.choice([c for c in cfgs if c[0] and c[1]])
        reqs = []
        for _ in range(rh.choice([2, 3, 3])):
            ids = rh.sample(range(1, 64, 2), rh.choice([1, 2, 4, 8]))
            reqs.append([[pid, rh.randrange(3), rh.choice(lists)] for pid in ids])
        # readd: meanwhile another thread applies the entity's configuration again (add_scp of
        # the service it already has): nothing that is served before and after the call may be
        # refused, or left without its service, while the call runs
        yield dict(hot=True, served=served, sup=sup, reqs=reqs, ctx=reqs[0],
                   seed=seed * 100151 + i, readd=i % 3 == 1)
    n = 700 if tier == 'quick' else 20000
    for i in range(n):
        served, sup = rnd.choice(cfgs)
        k = rnd.choice([2, 3, 3, 4, 8, 30, 128])
        ids = rnd.sample(range(1, 256, 2), k)
        if rnd.random() < 0.2:
            ids = sorted(ids)
        ctx = [[pid, rnd.randrange(3), rnd.choice(lists)] for pid in ids]
        yield dict(served=served, sup=sup, ctx=ctx, seed=seed * 100003 + i,
                   titles=[rnd.choice(['SRV', 'A', 'SIXTEEN_CHARS_AE', 'x y', ' LEAD']),
                           rnd.choice(['CLI', 'B', 'CALLING_AE_TITLE'])],
                   scu_first=rnd.choice([0, 0, 1, 2]), late_add=rnd.random() < 0.25,
                   appctx=rnd.choice([None, None, '1.2.826.0.1.3680043.8.498.77.1',
                                      '1.2.840.10008.3.1.1.1.9']))


def _hot_case(case):
    from pynetdicom2 import applicationentity
    from .. import preempt
    served = case['served']
    sup = [TS4[i] for i in case['sup']]
    world = SimWorld('c09h/%s' % case['seed'], with_fs=True)
    viol = []
    calls = []

    def v(rule, detail):
        viol.append({'sig': 'C09 %s concurrent-negotiation' % rule,
                     'detail': '%s\ncase %r\nhandler errors %r' % (detail, case,
                                                                   world.handler_errors[:1])})
    pre = None
    try:
        def sentinel(asce, ctx, msg):
            # data sets of the served classes are received into files, so the provider thread
            # needs the negotiated context the moment the first data fragment arrives
            from pynetdicom2 import dimsemessages
            calls.append((id(asce), ctx.id, str(ctx.sop_class), str(ctx.supported_ts)))
            if hasattr(msg.data_set, 'close'):
                msg.data_set.close()
            rsp = dimsemessages.CStoreRSPMessage()
            rsp.message_id_being_responded_to = msg.message_id
            rsp.sop_class_uid = msg.sop_class_uid
            rsp.affected_sop_instance_uid = msg.affected_sop_instance_uid
            rsp.status = 0
            asce.send(rsp, ctx.id)
        sentinel.sop_classes = list(served)
        sentinel.store_in_file = True
        ae = world.make_ae(applicationentity.AE, 'SRV', 11112, sup, 16384)
        ae.add_scp(sentinel)
        world.serve_ae(ae, ADDR)
        outs = []
        for k, req in enumerate(case['reqs']):
            ctxs = [(pid, ABSTRACTS[ab], tuple(TS4[i] for i in tl)) for pid, ab, tl in req]
            out = {'ctxs': ctxs}
            outs.append(out)

            def script(peer, out=out, ctxs=ctxs, k=k):
                out['reply'] = peer.associate()
                if isinstance(out['reply'], dict) and out['reply']['kind'] == 'A-ASSOCIATE-AC':
                    acc_ = [c for c in out['reply']['contexts'] if c[1] == 0]
                    if acc_:
                        # use the first accepted context at once: a C-STORE with a data set
                        pid_ = acc_[0][0]
                        ab_ = dict((c[0], c[1]) for c in ctxs)[pid_]
                        peer.send_message(pid_, {0x0002: ab_, 0x0100: 0x0001, 0x0110: 40 + k,
                                                 0x0700: 0, 0x0800: 1, 0x1000: '1.2.3.%d' % k},
                                          b'\x10\x00\x10\x00\x04\x00\x00\x00ABCD')
                        out['probe'] = (pid_, ab_, acc_[0][2])
                        out['answer'] = peer.read_message(timeout=60.0)
                    if not peer.eof and not peer.reset:
                        try:
                            peer.release()
                        except OSError:
                            pass
            pr = peers.ScriptedRequestor(world.sim, world.net, ADDR, ctxs, script=script)
            world.spawn(pr.run, 'peer%d' % k, role='user')
        pre = preempt.Preempter(world.sim, prob=0.3, park_prob=0.2, park_max=0.05,
                                funcs={'accept'},
                                files=('applicationentity.py', 'asceprovider.py'))
        pre.install()
        if case.get('readd'):
            # (started after install(): only threads started under the trace hook are pre-empted)
            def reconf():
                for _ in range(12):
                    ae.add_scp(sentinel)
                    world.sim.bump('probe.configuration_applied_again_while_negotiating')
                    world.sim.sleep(0.013)
            world.spawn(reconf, 'reconf', role='user')
        try:
            world.run(tmax=300)
            world.drain(1.0)
        finally:
            pre.uninstall()
            pre = None
        for k, out in enumerate(outs):
            p = out.get('reply')
            ctxs = out['ctxs']
            if not isinstance(p, dict) or p.get('kind') != 'A-ASSOCIATE-AC':
                v('no-associate-ac', 'requestor %d got %r' % (k, p))
                continue
            got = p['contexts']
            if [c[0] for c in got] != [c[0] for c in ctxs]:
                v('contexts-not-answered-once-in-order', 'requestor %d proposed %r answered %r' % (
                    k, [c[0] for c in ctxs], [c[0] for c in got]))
                continue
            for (pid, ab, tss), (_, res, ts) in zip(ctxs, got):
                should = ab in served and any(t in sup for t in tss)
                if (res == 0) != should:
                    v('accept-decision-wrong should_accept=%s' % should,
                      'requestor %d ctx %r result %r ts %r; served %r supported %r' % (
                          k, (pid, ab, tss), res, ts, served, sup))
                elif res == 0 and (ts not in tss or ts not in sup):
                    v('accepted-ts-not-proposed-and-supported',
                      'requestor %d ctx %r answered ts %r' % (k, (pid, ab, tss), ts))
            if 'probe' in out:
                m = out.get('answer')
                pid_, ab_, ts_ = out['probe']
                if not isinstance(m, dict) or 'fields' not in m:
                    v('accepted-context-not-served',
                      'requestor %d: C-STORE on context %d right after the A-ASSOCIATE-AC got %r'
                      % (k, pid_, m if not isinstance(m, dict) else m.get('kind')))
                elif m['pcid'] != pid_ or m['fields'].get(0x0100) != 0x8001:
                    v('probe-answered-on-other-context', 'requestor %d sent on %d, got %r on %d'
                      % (k, pid_, m['fields'].get(0x0100), m['pcid']))
                elif not [c for c in calls if c[1:] == (pid_, ab_, ts_)]:
                    v('served-context-differs-from-answer',
                      'requestor %d: AC said (%d, %s, %s); service saw %r' % (
                          k, pid_, ab_, ts_, [c[1:] for c in calls]))
        return _fin(world, viol, case, case['reqs'][0])
    finally:
        if pre is not None:
            pre.uninstall()
        world.close()


def run_case(case):
    if case.get('hot'):
        return _hot_case(case)
    from pynetdicom2 import applicationentity
    served = case['served']
    sup = [TS4[i] for i in case['sup']]
    ctxs = [(pid, ABSTRACTS[ab], tuple(TS4[i] for i in tl)) for pid, ab, tl in case['ctx']]
    called, calling = case.get('titles', ['SRV', 'CLI'])
    world = SimWorld('c09/%s' % case['seed'])
    viol = []

    def v(rule, detail):
        viol.append({'sig': 'C09 %s' % rule, 'detail': '%s\ncase %r\nhandler errors %r' % (
            detail, case, world.handler_errors[:1])})
    try:
        calls = []

        def sentinel(asce, ctx, msg):
            calls.append((ctx.id, str(ctx.sop_class), str(ctx.supported_ts), asce))
            from pynetdicom2 import dimsemessages
            rsp = dimsemessages.CEchoRSPMessage()
            rsp.message_id_being_responded_to = msg.message_id
            rsp.sop_class_uid = msg.sop_class_uid
            rsp.status = 0
            asce.send(rsp, ctx.id)
        sentinel.sop_classes = list(served)
        late = None
        if case.get('late_add') and len(served) >= 1:
            # part of what the entity serves is configured while the requestor is already
            # connected but has not sent its request yet: the request is negotiated against
            # what is configured when it arrives - and what was accepted is then served
            k_ = len(served) // 2

            def late(asce, ctx, msg):
                return sentinel(asce, ctx, msg)
            late.sop_classes = list(served[k_:])
            sentinel.sop_classes = list(served[:k_])
        ae = world.make_ae(applicationentity.AE, 'SRV', 11112, sup, 16384)
        if case.get('scu_first') and served:
            # the entity also USES some of the classes it serves, and was told so first
            def as_user(asce, ctx, *a):
                return None
            as_user.sop_classes = list(served[:case['scu_first']])
            ae.add_scu(as_user)
        ae.add_scp(sentinel)
        world.serve_ae(ae, ADDR)
        out = {}

        def probe_msg(peer, pid, ab, mid):
            peer.send_message(pid, {0x0002: ab, 0x0100: 0x0030, 0x0110: mid, 0x0800: 0x0101})
            return peer.read_message(timeout=30.0)

        def script(peer):
            p = peer.associate()
            out['reply'] = p
            if not isinstance(p, dict) or p['kind'] != 'A-ASSOCIATE-AC':
                return
            out['probes'] = []
            accepted = [c for c in p['contexts'] if c[1] == 0]
            ab_of = {pid: ab for pid, ab, _ in ctxs}
            for j, (pid, res, ts) in enumerate(accepted[:6]):
                n0 = len(calls)
                m = probe_msg(peer, pid, ab_of.get(pid, S1), 100 + j)
                out['probes'].append((pid, ts, m, calls[n0:]))
            peer.release()
        appctx = case.get('appctx') or rc.APP_CONTEXT
        def before_rq():
            world.sim.sleep(0.3)
            ae.add_scp(late)
            world.sim.sleep(0.1)
        peer = peers.ScriptedRequestor(world.sim, world.net, ADDR, ctxs, called=called,
                                       calling=calling, script=script, app_context=appctx,
                                       before_rq=before_rq if late is not None else None)
        world.spawn(peer.run, 'peer0', role='user')
        world.run(tmax=300)
        world.drain(1.0)
        p = out.get('reply')
        if not isinstance(p, dict) or p.get('kind') != 'A-ASSOCIATE-AC':
            v('no-associate-ac', 'reply %r peer errors %r' % (p, peer.errors))
            return _fin(world, viol, case, ctxs)
        for e in peer.errors:
            v('peer-saw-protocol-error', e)
        if (p['called'], p['calling']) != (called.strip(), calling.strip()):
            v('ae-titles-not-repeated', 'got %r/%r' % (p['called'], p['calling']))
        elif (p.get('called_raw'), p.get('calling_raw')) != (rc._ae(called), rc._ae(calling)):
            # the 16-byte fields themselves, padding included, are what the request carried
            v('ae-title-fields-not-repeated-byte-for-byte', 'sent %r/%r got %r/%r' % (
                rc._ae(called), rc._ae(calling), p.get('called_raw'), p.get('calling_raw')))
        if p['app_context'] != appctx:
            v('application-context-not-repeated', 'request named %r, reply names %r' % (
                appctx, p['app_context']))
        got = p['contexts']
        if [c[0] for c in got] != [c[0] for c in ctxs]:
            v('contexts-not-answered-once-in-order', 'proposed ids %r answered %r' % (
                [c[0] for c in ctxs][:12], [c[0] for c in got][:12]))
        else:
            for (pid, ab, tss), (_, res, ts) in zip(ctxs, got):
                should = ab in served and any(t in sup for t in tss)
                if (res == 0) != should:
                    v('accept-decision-wrong should_accept=%s' % should,
                      'ctx %r result %r ts %r; served %r supported %r' % (
                          (pid, ab, tss), res, ts, served, sup))
                elif res == 0 and (ts not in tss or ts not in sup):
                    v('accepted-ts-not-proposed-and-supported',
                      'ctx %r answered ts %r; supported %r' % ((pid, ab, tss), ts, sup))
            for pid, ts, m, cl in out.get('probes', []):
                if not isinstance(m, dict) or 'fields' not in m:
                    v('accepted-context-not-served', 'probe on %d got %r' % (pid, m))
                    continue
                if m['pcid'] != pid:
                    v('probe-answered-on-other-context', 'sent on %d answered on %d' % (
                        pid, m['pcid']))
                ab = dict((c[0], c[1]) for c in ctxs)[pid]
                if len(cl) != 1 or cl[0][:3] != (pid, ab, ts):
                    v('served-context-differs-from-answer',
                      'AC said (%d, %s, %s); service saw %r' % (pid, ab, ts, [c[:3] for c in cl]))
        # probe a refused id and an id that was never proposed on fresh associations
        refused = [c[0] for c in got if c[1] != 0][:1]
        unknown = [x for x in (7, 9, 11, 13) if x not in [c[0] for c in ctxs]][:1]
        # a context id that WAS accepted in the association above is proposed again in a new
        # association, this time for an abstract syntax nobody serves: whatever was negotiated
        # before must not leak into this association
        flipped = [c[0] for c in got if c[1] == 0][:1]
        probes2 = [(pid, ctxs) for pid in refused + unknown]
        for pid in flipped:
            ctxs2 = tuple((p_, (UNSERVED if p_ == pid else ab), tss) for p_, ab, tss in ctxs)
            probes2.append((pid, ctxs2))
        for pid, pctxs in probes2:
            n0 = len(calls)

            def script2(peer2, pid=pid):
                q = peer2.associate()
                if not isinstance(q, dict) or q['kind'] != 'A-ASSOCIATE-AC':
                    return
                peer2.send_message(pid, {0x0002: S1 if S1 in served else (served[0] if served
                                                                            else S1),
                                         0x0100: 0x0030, 0x0110: 5, 0x0800: 0x0101})
                peer2.read_message(timeout=20.0)
                if not peer2.eof and not peer2.reset:
                    peer2.send(rc.enc_abort(0, 0))
            peer2 = peers.ScriptedRequestor(world.sim, world.net, ADDR, pctxs, script=script2)
            t2 = world.spawn(peer2.run, 'probe%d' % pid, role='user')
            world.run(tmax=200)
            world.drain(1.0)
            if len(calls) > n0:
                v('service-ran-on-%s-context' % ('refused' if pid in refused else (
                    'refused-here-accepted-elsewhere' if pid in flipped else 'unproposed')),
                  'message on id %d reached %r' % (pid, [c[:3] for c in calls[n0:]]))
        return _fin(world, viol, case, ctxs)
    finally:
        world.close()


def _fin(world, viol, case, ctxs):
    sim = world.sim
    seen, uniq = set(), []
    for x in viol:
        if x['sig'] not in seen:
            seen.add(x['sig'])
            uniq.append(x)
    key = '%r/%r/%r' % (case['served'], case['sup'], case['ctx'])
    import hashlib
    return {'violations': uniq, 'stats': dict(sim.stats), 'digest': sim.digest.hexdigest(),
            'sched_sig': hashlib.sha1(key.encode()).hexdigest(), 'steps': sim.steps,
            'vsecs': sim.now - 1000.0,
            'nontrivial': len(ctxs) > 0 and (len(case['sup']) < 4 or len(case['served']) < 2),
            'sample': {'case': case if len(case['ctx']) < 5 else dict(case, ctx=case['ctx'][:4])}}
