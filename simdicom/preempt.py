"""Fine-grain pre-emption: turn a seeded fraction of source lines inside selected library
functions into scheduling points (sys.settrace 'line' events under the baton)."""
import sys
import threading

DEFAULT_FUNCS = {
    'copy_context_def_list', 'update_context_def_list', '_build_context_def_list', '_new_msg_id',
    '_get_storage_file', 'send', 'encode', 'set_length', 'kill', 'stop', 'get_scu', 'accept',
    '_request', 'request', 'c_find', 'write_meta', 'get_file', '_loop', 'process',
}


def _arm_opcode_tracing():
    sys._getframe().f_trace_opcodes = True


class Preempter(object):
    def __init__(self, sim, prob=0.25, funcs=None, path_part='/pynetdicom2/', park_prob=0.0,
                 park_max=0.2, opcode_prob=0.0, opcode_funcs=None, files=None):
        """park_prob: fraction of the pre-emptions that park the thread for up to park_max
        virtual seconds (a slow thread inside the function) instead of merely yielding - other
        threads then run until they block, which lets a second thread reach the same code."""
        self.sim = sim
        # opcode_prob > 0: every bytecode instruction of the selected functions is a possible
        # scheduling point as well (frame.f_trace_opcodes), so a thread can lose the processor
        # between evaluating an expression and storing its result (sub-line races)
        self.opcode_prob = opcode_prob
        self.opcode_funcs = opcode_funcs        # None: every selected function
        # files: also every function defined in library files with these base names (a change
        # may move the racy code into a helper whose name no check can know in advance)
        self.files = tuple('/' + f for f in files) if files else ()
        self.park_prob = park_prob
        self.park_max = park_max
        self.prob = prob
        self.funcs = funcs or DEFAULT_FUNCS
        self.path_part = path_part
        self.active = False

    def _global(self, frame, event, arg):
        if event != 'call':
            return None
        code = frame.f_code
        if (code.co_name in self.funcs or
                (self.files and code.co_filename.endswith(self.files))) and \
                self.path_part in code.co_filename:
            if self.opcode_prob and (self.opcode_funcs is None or
                                     code.co_name in self.opcode_funcs):
                frame.f_trace_opcodes = True
            return self._local
        return None

    def _local(self, frame, event, arg):
        if self.active and (event == 'line' or event == 'opcode'):
            sim = self.sim          # may be bound after install() (threads must start traced)
            if sim is not None and sim.in_task() and not sim._aborting:
                if event == 'opcode':
                    if not self.opcode_prob or \
                            not sim.chance('preempt', self.opcode_prob, 'preop'):
                        return self._local
                    sim.bump('probe.opcode_preemptions')
                elif not sim.chance('preempt', self.prob, 'pre'):
                    return self._local
                else:
                    sim.bump('probe.fine_grain_preemptions')
                if self.park_prob and sim.chance('preempt', self.park_prob, 'park'):
                    sim.bump('probe.fine_grain_parks')
                    sim.sleep(self.park_max * (1 + sim.choose('preempt', 8, 'parklen')) / 8.0)
                else:
                    sim.yield_('preempt')
        return self._local

    def install(self):
        self.active = True
        if self.opcode_prob:
            # CPython 3.12 turns instruction events on for a thread when that thread calls
            # sys.settrace() AFTER some frame has asked for opcode tracing (an interpreter-wide
            # switch).  Flip the switch here, from a short-lived frame, before any simulated
            # thread starts: otherwise the first run in a process sees fewer events than
            # later ones and a replay in a fresh interpreter diverges.
            _arm_opcode_tracing()
        threading.settrace(self._global)

    def uninstall(self):
        self.active = False
        threading.settrace(None)
        sys.settrace(None)
