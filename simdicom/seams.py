"""install()/uninstall(): rebind the module-level names through which the library reaches the
OS (threads, clock, select, sockets, queues, files) to simulator objects.  No edit to /repo."""
import threading as _real_threading

from . import net as simnet

_installed = None


class World(object):
    """Everything a run owns: sim, net, fs."""

    def __init__(self, sim):
        self.sim = sim
        self.net = simnet.Net(sim)
        self.fs = None
        self.provider_tasks = []


def install(sim, fs=None):
    global _installed
    if _installed is not None:
        raise RuntimeError('seams already installed')
    from pynetdicom2 import dulprovider, fsm, asceprovider, applicationentity, sopclass
    import pynetdicom2

    world = World(sim)
    world.fs = fs
    saved = []

    def patch(obj, name, value):
        missing = object()
        old = obj.__dict__.get(name, missing) if isinstance(obj, type) else getattr(obj, name, missing)
        saved.append((obj, name, old, missing))
        setattr(obj, name, value)

    def start(self):
        # (numbered by order of creation: an id() may be used again once a provider is gone)
        t = sim.spawn(self.run, name='dul%d' % len(world.provider_tasks), role='dul')
        world.provider_tasks.append(t)
        self._sim_task = t

    patch(dulprovider.DULServiceProvider, 'start', start)

    # the provider IS a threading.Thread: whatever asks it whether it runs, or waits for it,
    # must see the simulated thread
    def is_alive(self):
        t = getattr(self, '_sim_task', None)
        return t is not None and not t.done

    def join(self, timeout=None):
        t = getattr(self, '_sim_task', None)
        if t is not None:
            sim.wait(lambda: t.done, timeout, 'join')

    patch(dulprovider.DULServiceProvider, 'is_alive', is_alive)
    patch(dulprovider.DULServiceProvider, 'join', join)
    patch(dulprovider, 'select', simnet.SelectNS(sim))
    tns = simnet.TimeNS(sim)
    patch(dulprovider, 'time', tns)
    patch(asceprovider, 'time', tns)
    patch(dulprovider, 'queue', simnet.QueueNS(sim))
    sns = simnet.SocketNS(world.net)
    patch(fsm, 'socket', sns)
    # dulprovider.socket is only used for `socket.error` (== OSError): left alone on purpose,
    # but a repair might create sockets there, so give it the factory too.
    patch(dulprovider, 'socket', sns)
    # AEBase.lock: a simulator lock, so that a holder pre-empted by the fine-grain mode can never
    # block a real thread outside the baton
    patch(applicationentity, 'Lock', lambda: simnet.SimLock(sim))
    # server AEs: the listening socket is a stub (never bound; the simulator's listener table
    # plays accept()).  StorageAE offers no bind_and_activate switch, hence the patch.
    import socketserver
    patch(socketserver.TCPServer, 'server_bind', lambda self: None)
    patch(socketserver.TCPServer, 'server_activate', lambda self: None)
    # threads that the code under test starts itself (socketserver's per-connection threads
    # through ThreadingMixIn.process_request, or anything an entity starts on its own) are
    # simulator tasks; likewise queues, clocks and events of any library module that uses them
    def on_start(thr):
        tgt = getattr(thr._target, '__name__', '')
        if tgt == 'process_request_thread':
            return 'acc%d' % len(world.acceptor_started), 'acceptor'
        return None

    def started(thr, task):
        if getattr(thr._target, '__name__', '') == 'process_request_thread':
            world.acceptor_started.append(task)
    on_start.started = started
    world.acceptor_started = []
    thread_cls = simnet.make_sim_thread_class(sim, on_start)
    tns_threads = simnet.ThreadingNS(sim, _real_threading, thread_cls)
    patch(socketserver, 'threading', tns_threads)
    # (DULServiceProvider was derived from the real threading.Thread when the module was loaded;
    # its start/is_alive/join are rebound above.  Anything else the module makes through its
    # `threading` name - threads, timers, conditions - is a simulator object.)
    patch(dulprovider, 'threading', tns_threads)
    for mod in (applicationentity, asceprovider, sopclass, fsm, pynetdicom2):
        if hasattr(mod, 'threading') and mod.threading is _real_threading:
            patch(mod, 'threading', tns_threads)
        if hasattr(mod, 'queue') and getattr(mod.queue, '__name__', '') == 'queue':
            patch(mod, 'queue', simnet.QueueNS(sim))
        if hasattr(mod, 'time') and getattr(mod.time, '__name__', '') == 'time' and \
                mod is not asceprovider:
            patch(mod, 'time', tns)
    # names a module may have bound directly (`from threading import Thread, Condition`, `from
    # time import sleep`, ...): the same objects, found by identity in the module's globals
    import queue as _real_queue
    import select as _real_select
    import time as _real_time
    import socket as _real_socket
    qns = simnet.QueueNS(sim)
    sel = simnet.SelectNS(sim)
    direct = [(_real_threading.Thread, thread_cls), (_real_threading.Event, tns_threads.Event),
              (_real_threading.Lock, tns_threads.Lock), (_real_threading.RLock, tns_threads.RLock),
              (_real_threading.Condition, tns_threads.Condition),
              (_real_threading.Semaphore, tns_threads.Semaphore),
              (_real_threading.BoundedSemaphore, tns_threads.BoundedSemaphore),
              (_real_threading.Timer, tns_threads.Timer),
              (_real_queue.Queue, qns.Queue),
              (_real_time.time, tns.time), (_real_time.sleep, tns.sleep),
              (_real_time.monotonic, tns.monotonic), (_real_time.perf_counter, tns.perf_counter),
              (_real_select.select, sel.select)]
    import sys as _sys
    for mname in sorted(m for m in _sys.modules if m == 'pynetdicom2' or m.startswith('pynetdicom2.')):
        mod = _sys.modules[mname]
        if mod is None:
            continue
        for gname in sorted(vars(mod)):
            val = vars(mod)[gname]
            if val is _real_threading:
                patch(mod, gname, tns_threads)
                continue
            if val is _real_queue:
                patch(mod, gname, qns)
                continue
            if val is _real_time:
                patch(mod, gname, tns)
                continue
            if val is _real_select:
                patch(mod, gname, sel)
                continue
            if val is _real_socket:
                patch(mod, gname, sns)
                continue
            for real_obj, sim_obj in direct:
                if val is real_obj:
                    patch(mod, gname, sim_obj)
                    break
    if fs is not None:
        patch(applicationentity, 'tempfile', fs.tempfile_ns())
        patch(pynetdicom2, 'open', fs.open)
        patch(pynetdicom2, 'os', fs.os_ns())
        patch(sopclass, 'open', fs.open)
    _installed = (saved, world)
    return world


def uninstall():
    global _installed
    if _installed is None:
        return
    saved, _ = _installed
    for obj, name, old, missing in reversed(saved):
        if old is missing:
            try:
                delattr(obj, name)
            except AttributeError:
                pass
        else:
            setattr(obj, name, old)
    _installed = None
