"""Structure-aware mutation of PDUs (DESIGN Appendix C).  Works on the serialised bytes plus a
structural walk that knows where every type, length and text field sits."""
import struct

from . import refcodec as rc
from .convo import CTXS, CT, tiny_ds, store_rq_pdvs

RICH_RQ = rc.enc_assoc_rq(
    contexts=CTXS, max_length=16384,
    extra_user=(rc.enc_async(1, 1), rc.enc_role(CT, 1, 1), rc.enc_ext_neg(CT, b'\x01\x00\x03'),
                rc._item(0x55, b'VERIF_1'), rc.enc_user_identity(2, 1, b'user', b'secret'),
                rc._item(0x60, b'\x01\x02')))
RICH_AC = rc.enc_assoc_ac(
    results=((1, 0, rc.IMPLICIT_LE), (3, 0, rc.IMPLICIT_LE), (5, 3, rc.IMPLICIT_LE)),
    max_length=16384,
    extra_user=(rc.enc_async(1, 1), rc.enc_role(CT, 1, 1), rc._item(0x55, b'VERIF_1'),
                rc._item(0x59, b'\x00\x04resp')))
ECHO_CMD = rc.enc_command({0x0002: rc.VERIFICATION, 0x0100: 0x0030, 0x0110: 9, 0x0800: 0x0101})
STORE_PDVS = store_rq_pdvs(5, 3, tiny_ds(64), 60)

BASES = {
    'rq': RICH_RQ,
    'ac': RICH_AC,
    'rj': rc.enc_assoc_rj(1, 1, 3),
    'echo': rc.enc_pdata([(1, 3, ECHO_CMD)]),
    'store': rc.enc_pdata(STORE_PDVS),
    'store-first': rc.enc_pdata(STORE_PDVS[:1]),
    'relrq': rc.enc_release_rq(),
    'relrp': rc.enc_release_rp(),
    'abort': rc.enc_abort(2, 1),
}


def walk(raw):
    """-> list of fields (offset, size, role, depth) for the PDU in raw (best effort)."""
    out = [(0, 1, 'pdu-type', 0), (2, 4, 'pdu-len', 0)]
    if len(raw) < 6:
        return out
    t = raw[0]
    if t in (1, 2):
        out += [(6, 2, 'proto', 1), (10, 16, 'text', 1), (26, 16, 'text', 1)]
        _walk_items(raw, 74, len(raw), out, 1)
    elif t == 4:
        p = 6
        while p + 6 <= len(raw):
            ln = struct.unpack('>I', raw[p:p + 4])[0]
            out += [(p, 4, 'pdv-len', 1), (p + 4, 1, 'ctx', 1), (p + 5, 1, 'mch', 1)]
            if ln < 2:
                break
            out.append((p + 6, max(0, min(ln - 2, len(raw) - p - 6)), 'payload', 1))
            p += 4 + ln
    elif t in (3, 7):
        out += [(7, 1, 'byte', 1), (8, 1, 'byte', 1), (9, 1, 'byte', 1)]
    return out


def _walk_items(raw, p, end, out, depth):
    while p + 4 <= end:
        it = raw[p]
        ln = struct.unpack('>H', raw[p + 2:p + 4])[0]
        out += [(p, 1, 'item-type', depth), (p + 2, 2, 'item-len', depth)]
        body, bend = p + 4, min(end, p + 4 + ln)
        if it in (0x20, 0x21):
            out.append((body, 1, 'ctx', depth + 1))
            _walk_items(raw, body + 4, bend, out, depth + 1)
        elif it == 0x50:
            _walk_items(raw, body, bend, out, depth + 1)
        elif it in (0x10, 0x30, 0x40, 0x52, 0x55):
            out.append((body, bend - body, 'text', depth + 1))
        elif it in (0x54, 0x56):
            out.append((body, 2, 'inner-len', depth + 1))
        elif it == 0x58:
            out += [(body + 2, 2, 'inner-len', depth + 1)]
        elif it == 0x59:
            out += [(body, 2, 'inner-len', depth + 1)]
        p = p + 4 + ln


def _setint(b, off, size, v):
    v &= (1 << (8 * size)) - 1
    return b[:off] + v.to_bytes(size, 'big') + b[off + size:]


def operators(raw):
    """Enumerate deterministic mutation descriptors for a base PDU."""
    ops = []
    fields = walk(raw)
    n = len(raw)
    for k in sorted(set([1, 3, 5, 6, 7, 10, n // 2, n - 1])):
        if 0 < k < n:
            ops.append(('trunc', k))
            if k >= 6:
                ops.append(('trunc_fix', k))
    for off, size, role, depth in fields:
        if role.endswith('len'):
            true = int.from_bytes(raw[off:off + size], 'big')
            for v in (0, 1, true - 1, true + 1, true + 7, (1 << (8 * size)) - 1):
                if v != true and v >= 0:
                    ops.append(('setint', off, size, v))
                    if off != 2 and size >= 2:
                        ops.append(('setint_fix', off, size, v))
        elif role in ('pdu-type', 'item-type'):
            for v in (0x00, 0x0B, 0xFF, 0x04 if role == 'pdu-type' else 0x51, 0x21, 0x07):
                if v != raw[off]:
                    ops.append(('setint', off, 1, v))
        elif role == 'text' and size > 0:
            ops.append(('nonascii', off, size))
            ops.append(('zero', off, size))
        elif role == 'mch':
            for v in (4, 5, 0x80, 0xFF, 0, 2):
                if v != raw[off]:
                    ops.append(('setint', off, 1, v))
        elif role == 'ctx':
            for v in (0, 2, 99, 255):
                ops.append(('setint', off, 1, v))
        elif role in ('byte', 'proto'):
            ops.append(('setint', off, size, (1 << (8 * size)) - 1))
    if raw[0] in (1, 2):
        ops += [('dup_item', i) for i in range(4)] + [('drop_item', i) for i in range(5)]
        ops += [('swap_items', i) for i in range(3)]
    if raw[0] == 4:
        ops += [('cmd_garbage', i) for i in range(7)]
    return ops


def _top_items(raw):
    items, p = [], 74
    while p + 4 <= len(raw):
        ln = struct.unpack('>H', raw[p + 2:p + 4])[0]
        items.append(raw[p:p + 4 + ln])
        p += 4 + ln
    return items


def _rebuild_assoc(raw, items):
    body = raw[6:74] + b''.join(items)
    return raw[:2] + struct.pack('>I', len(body)) + body


def apply(raw, op, rnd=None):
    kind = op[0]
    if kind == 'trunc':
        return raw[:op[1]]
    if kind == 'trunc_fix':
        cut = raw[:op[1]]
        return cut[:2] + struct.pack('>I', len(cut) - 6) + cut[6:]
    if kind == 'setint':
        return _setint(raw, op[1], op[2], op[3])
    if kind == 'setint_fix':
        # change an inner length and make the PDU physically consistent with the *new* value by
        # padding / cutting the tail, then fix the outer PDU length
        off, size, v = op[1], op[2], op[3]
        true = int.from_bytes(raw[off:off + size], 'big')
        b = _setint(raw, off, size, v)
        if v > true and v - true < 4096:
            b = b + b'\0' * (v - true)
        b = b[:2] + struct.pack('>I', len(b) - 6) + b[6:]
        return b
    if kind == 'nonascii':
        off, size = op[1], op[2]
        return raw[:off] + bytes([0xE9, 0xFF][:1]) + raw[off + 1:off + size - 1] + \
            (b'\xfe' if size > 1 else b'') + raw[off + size:]
    if kind == 'zero':
        off, size = op[1], op[2]
        return raw[:off] + b'\0' * size + raw[off + size:]
    if kind in ('dup_item', 'drop_item', 'swap_items'):
        items = _top_items(raw)
        i = op[1]
        if i >= len(items):
            i = len(items) - 1
        if kind == 'dup_item':
            items = items[:i + 1] + [items[i]] + items[i + 1:]
        elif kind == 'drop_item':
            items = items[:i] + items[i + 1:]
        elif i + 1 < len(items):
            items[i], items[i + 1] = items[i + 1], items[i]
        return _rebuild_assoc(raw, items)
    if kind == 'cmd_garbage':
        i = op[1]
        if i == 0:     # not a data set at all
            return rc.enc_pdata([(1, 3, b'\xff' * 11)])
        if i == 1:     # ends mid-element
            return rc.enc_pdata([(1, 3, ECHO_CMD[:-3])])
        if i == 2:     # lacks CommandField
            return rc.enc_pdata([(1, 3, rc.enc_command({0x0002: rc.VERIFICATION, 0x0110: 1,
                                                        0x0800: 0x0101}))])
        if i == 3:     # lacks CommandDataSetType
            return rc.enc_pdata([(1, 3, rc.enc_command({0x0002: rc.VERIFICATION, 0x0100: 0x0030,
                                                        0x0110: 1}))])
        if i == 4:     # unknown command field
            return rc.enc_pdata([(1, 3, rc.enc_command({0x0002: rc.VERIFICATION, 0x0100: 0x7777,
                                                        0x0110: 1, 0x0800: 0x0101}))])
        if i == 5:     # empty PDV payload / empty command
            return rc.enc_pdata([(1, 3, b'')])
        if i == 6:     # data fragment before any command
            return rc.enc_pdata([(1, 2, b'\x01\x02\x03\x04')])
    if kind == 'flip':
        off, bit = op[1] % len(raw), op[2]
        return raw[:off] + bytes([raw[off] ^ (1 << bit)]) + raw[off + 1:]
    if kind == 'random':
        return bytes(op[1])
    raise ValueError(op)


def _cannot_be_tiled(body, kind):
    """True if walking the items of `body` ends with 1-3 bytes left over, which cannot hold an
    item header.
    kind 'pdv': 32-bit length + value; kind 'item': type, reserved, 16-bit length + value."""
    p = 0
    while p < len(body):
        if len(body) - p < 4:
            return True
        if kind == 'pdv':
            ln = struct.unpack('>I', body[p:p + 4])[0]
        else:
            ln = struct.unpack('>H', body[p + 2:p + 4])[0]
        p += 4
        # (an item whose length runs past the end is NOT counted: a decoder may take what is
        # there - the library does - so such a PDU is merely malformed)
        p += ln
    return False


def undecodable(raw):
    """A framed PDU of a known type that NO reading can decode: fixed fields are missing, or
    the items inside do not fit the declared length.  (Anything milder - reserved bytes,
    odd values, surplus bytes behind complete fixed fields - is merely 'malformed'.)"""
    t = raw[0]
    body = raw[6:]
    if t in (3, 5, 6, 7):
        return len(body) < 4
    if t == 4:
        return _cannot_be_tiled(body, 'pdv')
    if t in (1, 2):
        # (the variable items of an A-ASSOCIATE PDU are read "until the data ends": the library
        # takes what is there, so surplus or cut-off items are merely malformed)
        return len(body) < 68
    return False


def classify(raw):
    """R-codec classification of one framed PDU:
    'unrecognised' | 'undecodable' | 'malformed' | 'valid'."""
    if raw[0] not in rc.PDU_NAMES:
        return 'unrecognised'
    if undecodable(raw):
        return 'undecodable'
    try:
        p = rc.parse_pdu(raw)
    except rc.Malformed:
        return 'malformed'
    if p['type'] in (1, 2):
        if p['app_context'] is None or p['user_info'] is None:
            return 'malformed'
        if p['item_order'] and (p['item_order'][0] != 0x10 or p['item_order'][-1] != 0x50):
            return 'malformed'
        if p['item_order'].count(0x10) != 1 or p['item_order'].count(0x50) != 1:
            return 'malformed'
        for c in p['contexts']:
            if c[1] is None or (p['type'] == 1 and not c[2]) or (p['type'] == 2 and c[2] is None):
                return 'malformed'
        if not any(x[0] == 'max_length' for x in p['user_info']):
            return 'malformed'
    if p['type'] == 4 and not p['pdvs']:
        return 'malformed'
    return 'valid'
