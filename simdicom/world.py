"""P2 harness: several real application entities and/or scripted peers in one simulated world."""
import gc
import traceback

from . import sched, seams, peers as simpeers, fs as simfs


class SendRecord(object):
    __slots__ = ('assoc', 't', 'pcid', 'fields', 'data', 'max_length', 'cls', 'command_field',
                 'is_file', 'task', 'index')


def snapshot_fields(command_set):
    """element-number -> plain value for a pydicom command data set (group length excluded)."""
    out = {}
    # (read from a copy: iterating a pydicom data set converts its not-yet-converted elements
    # in place, and an observation must not change the object it observes)
    import copy
    for el in copy.deepcopy(command_set):
        tag = int(el.tag)
        if tag >> 16 != 0:
            out[tag] = repr(el.value)
            continue
        num = tag & 0xffff
        if num == 0:
            continue
        v = el.value
        if v is None or v == '':
            v = ''
        elif el.VR == 'US' or el.VR == 'UL':
            v = int(v) if not isinstance(v, (list, tuple)) and not hasattr(v, '__iter__') else \
                tuple(int(x) for x in v)
        elif el.VR == 'AT':
            v = repr(v)
        else:
            v = str(v)
        out[num] = v
    return out


LIVE = []        # worlds that have not been closed (normally at most one)


def close_leftovers():
    """Close whatever a run_case() that raised half-way left behind (used by the runner around
    speculative runs such as shrink candidates, whose parameters may be out of a workload's
    range)."""
    import sys
    import threading
    for w in list(LIVE):
        try:
            w.close()
        except BaseException:  # pylint: disable=broad-except
            pass
    del LIVE[:]
    seams.uninstall()
    threading.settrace(None)
    sys.settrace(None)


class SimWorld(object):
    def __init__(self, seed, with_fs=False, delivery='random', policy='random', trace=None,
                 latency=0.0):
        self.sim = sched.Sim(seed, trace, policy=policy)
        gc.disable()
        self.fs = simfs.SimFS(self.sim) if with_fs else None
        self.closed = False
        self._orig_send = None
        self.aes = []
        self.w = seams.install(self.sim, self.fs)
        LIVE.append(self)
        self.net = self.w.net
        self.net.delivery_mode = delivery
        self.net.latency = latency
        self.aes = []
        self.peers = []
        self.handler_errors = []
        self.sends = []
        self.acceptor_tasks = []
        self.closed = False
        self._orig_send = None
        self.on_send = None

    # ---------------------------------------------------------------- real application entities
    def make_ae(self, cls, *a, **k):
        """Construct a real AE (server classes are created without binding a real socket)."""
        ae = cls(*a, **k)
        self.aes.append(ae)
        if hasattr(ae, 'process_request_thread'):
            def handle_error(request, client_address, _self=self):
                _self.handler_errors.append(traceback.format_exc())
            ae.handle_error = handle_error
        return ae

    def serve_ae(self, ae, addr):
        """The entity's accept loop as socketserver runs it: ONE thread takes the connections
        in the order they arrive, asks verify_request() and only then starts the per-connection
        handler thread (ThreadingMixIn) - so whatever an entity does in verify_request happens
        in series, as in the real server."""
        pending = []
        sim = self.sim

        def accept_loop():
            while True:
                sim.wait(lambda: bool(pending), None, 'accept')
                sock, caddr = pending.pop(0)
                try:
                    ok = ae.verify_request(sock, caddr)
                except Exception:  # pylint: disable=broad-except
                    ok = False
                if ok:
                    # (ThreadingMixIn.process_request, or whatever the entity makes of it: the
                    # thread it starts per connection is a simulator task, see seams)
                    n0 = len(self.w.acceptor_started)
                    try:
                        ae.process_request(sock, caddr)
                    except Exception:  # pylint: disable=broad-except
                        self.handler_errors.append(traceback.format_exc())
                    self.acceptor_tasks.extend(self.w.acceptor_started[n0:])
                else:
                    try:
                        ae.shutdown_request(sock)
                    except Exception:  # pylint: disable=broad-except
                        pass
        sim.spawn(accept_loop, name='accept%d' % len(self.aes), role='accept-loop')

        def on_conn(sock, caddr):
            pending.append((sock, caddr))
        self.net.listen(addr, on_conn)

    def serve_peer(self, addr, factory):
        def on_conn(sock, caddr):
            p = factory(sock)
            self.peers.append(p)
            p.task = self.sim.spawn(p.run, name='peer%d' % len(self.peers), role='peer')
        self.net.listen(addr, on_conn)

    def spawn(self, fn, name, role='user'):
        return self.sim.spawn(fn, name=name, role=role)

    # ---------------------------------------------------------------- send snapshot
    def watch_sends(self):
        from pynetdicom2 import asceprovider
        world = self
        orig = asceprovider.Association.send
        self._orig_send = orig

        def send(assoc, dimse_msg, pc_id):
            r = SendRecord()
            r.assoc = assoc
            r.t = world.sim.now
            r.pcid = pc_id
            r.fields = snapshot_fields(dimse_msg.command_set)
            ds = dimse_msg.data_set
            r.is_file = False
            if ds is None or ds == b'':
                r.data = None
            elif isinstance(ds, (bytes, bytearray)):
                r.data = bytes(ds)
            else:
                r.is_file = True
                try:
                    pos = ds.tell()
                    r.data = ds.read()
                    ds.seek(pos)
                except Exception as e:  # pylint: disable=broad-except
                    r.data = ('unreadable', repr(e))
            r.max_length = assoc.max_pdu_length
            r.cls = type(dimse_msg).__name__
            r.command_field = type(dimse_msg).command_field
            r.task = world.sim.current.name if world.sim.current else 'driver'
            r.index = len(world.sends)
            world.sends.append(r)
            if world.on_send is not None:
                world.on_send(r)
            return orig(assoc, dimse_msg, pc_id)
        asceprovider.Association.send = send

    # ---------------------------------------------------------------- running
    def run(self, tmax=600.0, until=None):
        sim = self.sim
        if until is None:
            users = [t for t in sim.tasks if t.role == 'user']
            until = lambda: all(t.done for t in users)
        return sim.run_until(until, tmax)

    def drain(self, tmax=60.0):
        """Let everything that can still happen happen (peers closing, acceptors finishing)."""
        self.sim.run_all(tmax)

    def close(self):
        if self.closed:
            return
        self.closed = True
        try:
            if self._orig_send is not None:
                from pynetdicom2 import asceprovider
                asceprovider.Association.send = self._orig_send
            self.sim.unwind()
        finally:
            for ae in self.aes:
                if hasattr(ae, 'server_close'):
                    try:
                        ae.server_close()
                    except Exception:  # pylint: disable=broad-except
                        pass
            seams.uninstall()
            gc.enable()
            if self in LIVE:
                LIVE.remove(self)

    def __enter__(self):
        return self

    def __exit__(self, *a):
        self.close()
