"""R-codec: reference PDU encoder, strict length-driven PDU parser (PS3.8 9.3, PS3.7 Annex D)
and a reference implicit-VR-little-endian command-group reader/writer (PS3.7 9.3/10.3/E).

Written from the standard; imports nothing from pynetdicom2 or pydicom.
"""
import struct

APP_CONTEXT = '1.2.840.10008.3.1.1.1'
IMPLICIT_LE = '1.2.840.10008.1.2'
EXPLICIT_LE = '1.2.840.10008.1.2.1'
EXPLICIT_BE = '1.2.840.10008.1.2.2'
VERIFICATION = '1.2.840.10008.1.1'

PDU_NAMES = {1: 'A-ASSOCIATE-RQ', 2: 'A-ASSOCIATE-AC', 3: 'A-ASSOCIATE-RJ', 4: 'P-DATA-TF',
             5: 'A-RELEASE-RQ', 6: 'A-RELEASE-RP', 7: 'A-ABORT'}


class Malformed(Exception):
    pass


# ------------------------------------------------------------------------------ encoding

def _ae(t):
    b = t.encode('ascii') if isinstance(t, str) else bytes(t)
    return b[:16].ljust(16, b' ')


def _item(t, body):
    return struct.pack('>BBH', t, 0, len(body)) + body


def _uid(u):
    return u.encode('ascii') if isinstance(u, str) else bytes(u)


def enc_pdu(t, body):
    return struct.pack('>BBI', t, 0, len(body)) + body


def enc_user_info(max_length=16384, impl_uid='1.2.3.4', impl_version=None, extra=()):
    body = b''
    if max_length is not None:
        body += _item(0x51, struct.pack('>I', max_length))
    if impl_uid is not None:
        body += _item(0x52, _uid(impl_uid))
    if impl_version is not None:
        body += _item(0x55, _uid(impl_version))
    for e in extra:
        body += e
    return _item(0x50, body)


def enc_role(sop, scu, scp):
    u = _uid(sop)
    return _item(0x54, struct.pack('>H', len(u)) + u + struct.pack('BB', scu, scp))


def enc_async(invoked, performed):
    return _item(0x53, struct.pack('>HH', invoked, performed))


def enc_ext_neg(sop, info):
    u = _uid(sop)
    return _item(0x56, struct.pack('>H', len(u)) + u + info)


def enc_user_identity(kind, resp_req, primary, secondary=b''):
    return _item(0x58, struct.pack('>BBH', kind, resp_req, len(primary)) + primary +
                 struct.pack('>H', len(secondary)) + secondary)


def enc_pc_rq(pcid, abstract, tss):
    body = struct.pack('BBBB', pcid, 0, 0, 0) + _item(0x30, _uid(abstract))
    for ts in tss:
        body += _item(0x40, _uid(ts))
    return _item(0x20, body)


def enc_pc_ac(pcid, result, ts):
    body = struct.pack('BBBB', pcid, 0, result, 0) + _item(0x40, _uid(ts))
    return _item(0x21, body)


def enc_assoc_rq(called='SRV', calling='CLI', contexts=((1, VERIFICATION, (IMPLICIT_LE,)),),
                 max_length=16384, app_context=APP_CONTEXT, user_info=None, impl_uid='1.2.3.4',
                 extra_user=(), protocol=1):
    body = struct.pack('>HH', protocol, 0) + _ae(called) + _ae(calling) + b'\0' * 32
    body += _item(0x10, _uid(app_context))
    for pcid, ab, tss in contexts:
        body += enc_pc_rq(pcid, ab, tss)
    body += user_info if user_info is not None else enc_user_info(max_length, impl_uid,
                                                                   extra=extra_user)
    return enc_pdu(1, body)


def enc_assoc_ac(called='SRV', calling='CLI', results=((1, 0, IMPLICIT_LE),), max_length=16384,
                 app_context=APP_CONTEXT, user_info=None, impl_uid='1.2.3.4', extra_user=()):
    body = struct.pack('>HH', 1, 0) + _ae(called) + _ae(calling) + b'\0' * 32
    body += _item(0x10, _uid(app_context))
    for pcid, res, ts in results:
        body += enc_pc_ac(pcid, res, ts)
    body += user_info if user_info is not None else enc_user_info(max_length, impl_uid,
                                                                   extra=extra_user)
    return enc_pdu(2, body)


def enc_assoc_rj(result=1, source=1, reason=1):
    return enc_pdu(3, struct.pack('BBBB', 0, result, source, reason))


def enc_release_rq():
    return enc_pdu(5, b'\0\0\0\0')


def enc_release_rp():
    return enc_pdu(6, b'\0\0\0\0')


def enc_abort(source=0, reason=0):
    return enc_pdu(7, struct.pack('BBBB', 0, 0, source, reason))


def enc_pdv(pcid, mch, payload):
    return struct.pack('>IBB', len(payload) + 2, pcid, mch) + payload


def enc_pdata(pdvs):
    """pdvs: iterable of (context id, message control header, payload bytes)."""
    return enc_pdu(4, b''.join(enc_pdv(*p) for p in pdvs))


# ------------------------------------------------------------------------------ strict parser

class _R(object):
    def __init__(self, b, what):
        self.b = b
        self.p = 0
        self.what = what

    def take(self, n):
        if n < 0 or self.p + n > len(self.b):
            raise Malformed('%s: need %d bytes at %d, have %d' % (self.what, n, self.p,
                                                                    len(self.b) - self.p))
        v = self.b[self.p:self.p + n]
        self.p += n
        return v

    def left(self):
        return len(self.b) - self.p

    def u8(self):
        return self.take(1)[0]

    def u16(self):
        return struct.unpack('>H', self.take(2))[0]

    def u32(self):
        return struct.unpack('>I', self.take(4))[0]


def _text(b, what):
    try:
        return b.decode('ascii')
    except UnicodeDecodeError:
        raise Malformed('%s: non-ASCII' % what)


def _items(r, what):
    while r.left():
        t = r.u8()
        r.u8()
        ln = r.u16()
        yield t, r.take(ln)


def _parse_user_info(body):
    out = []
    for t, b in _items(_R(body, 'user-info'), 'user-info'):
        r = _R(b, 'sub-item %02x' % t)
        if t == 0x51:
            if len(b) != 4:
                raise Malformed('max-length sub-item length %d' % len(b))
            out.append(('max_length', r.u32()))
        elif t == 0x52:
            out.append(('impl_uid', _text(b, 'impl uid')))
        elif t == 0x55:
            out.append(('impl_version', _text(b, 'impl version')))
        elif t == 0x53:
            if len(b) != 4:
                raise Malformed('async sub-item length')
            out.append(('async', r.u16(), r.u16()))
        elif t == 0x54:
            n = r.u16()
            u = _text(r.take(n), 'role uid')
            scu, scp = r.u8(), r.u8()
            if r.left():
                raise Malformed('role sub-item trailing bytes')
            out.append(('role', u, scu, scp))
        elif t == 0x56:
            n = r.u16()
            u = _text(r.take(n), 'ext uid')
            out.append(('ext_neg', u, r.take(r.left())))
        elif t == 0x58:
            kind, resp = r.u8(), r.u8()
            p = r.take(r.u16())
            s = r.take(r.u16())
            if r.left():
                raise Malformed('user identity trailing bytes')
            out.append(('user_identity', kind, resp, p, s))
        elif t == 0x59:
            s = r.take(r.u16())
            if r.left():
                raise Malformed('user identity ac trailing bytes')
            out.append(('user_identity_ac', s))
        else:
            out.append(('unknown', t, b))
    return out


def _parse_assoc(t, body):
    r = _R(body, PDU_NAMES[t])
    proto = r.u16()
    r.take(2)
    called_raw = bytes(r.take(16))
    calling_raw = bytes(r.take(16))
    called = _text(called_raw, 'called AE').strip(' \0')
    calling = _text(calling_raw, 'calling AE').strip(' \0')
    r.take(32)
    d = {'type': t, 'kind': PDU_NAMES[t], 'protocol': proto, 'called': called, 'calling': calling,
         'called_raw': called_raw, 'calling_raw': calling_raw,
         'app_context': None, 'contexts': [], 'user_info': None, 'item_order': []}
    for it, b in _items(r, 'assoc items'):
        d['item_order'].append(it)
        if it == 0x10:
            d['app_context'] = _text(b, 'app context')
        elif it == 0x20:
            if t != 1:
                raise Malformed('RQ presentation context item in AC')
            rr = _R(b, 'pc-rq')
            pcid = rr.u8()
            rr.take(3)
            ab, tss = None, []
            for st, sb in _items(rr, 'pc-rq sub'):
                if st == 0x30:
                    ab = _text(sb, 'abstract syntax')
                elif st == 0x40:
                    tss.append(_text(sb, 'transfer syntax'))
                else:
                    raise Malformed('unexpected sub-item %02x in pc-rq' % st)
            d['contexts'].append((pcid, ab, tuple(tss)))
        elif it == 0x21:
            if t != 2:
                raise Malformed('AC presentation context item in RQ')
            rr = _R(b, 'pc-ac')
            pcid = rr.u8()
            rr.u8()
            res = rr.u8()
            rr.u8()
            ts = None
            for st, sb in _items(rr, 'pc-ac sub'):
                if st == 0x40:
                    ts = _text(sb, 'transfer syntax')
                else:
                    raise Malformed('unexpected sub-item %02x in pc-ac' % st)
            d['contexts'].append((pcid, res, ts))
        elif it == 0x50:
            d['user_info'] = _parse_user_info(b)
        else:
            raise Malformed('unknown variable item %02x' % it)
    return d


def parse_pdu(raw):
    """Strictly parse exactly one PDU occupying all of `raw`."""
    if len(raw) < 6:
        raise Malformed('short PDU header')
    t, _, ln = struct.unpack('>BBI', raw[:6])
    if len(raw) != 6 + ln:
        raise Malformed('PDU length %d does not delimit %d bytes' % (ln, len(raw) - 6))
    body = raw[6:]
    if t in (1, 2):
        return _parse_assoc(t, body)
    if t == 3:
        if ln != 4:
            raise Malformed('RJ length %d' % ln)
        return {'type': 3, 'kind': PDU_NAMES[3], 'result': body[1], 'source': body[2],
                'reason': body[3]}
    if t == 4:
        r = _R(body, 'P-DATA-TF')
        pdvs = []
        while r.left():
            il = r.u32()
            if il < 2:
                raise Malformed('PDV item length %d' % il)
            b = r.take(il)
            pdvs.append((b[0], b[1], bytes(b[2:])))
        return {'type': 4, 'kind': PDU_NAMES[4], 'pdvs': pdvs, 'length': ln}
    if t in (5, 6):
        if ln != 4:
            raise Malformed('release length %d' % ln)
        return {'type': t, 'kind': PDU_NAMES[t]}
    if t == 7:
        if ln != 4:
            raise Malformed('abort length %d' % ln)
        return {'type': 7, 'kind': PDU_NAMES[7], 'source': body[2], 'reason': body[3]}
    raise Malformed('unknown PDU type %02x' % t)


def split_stream(buf):
    """Split a byte stream into raw PDUs by their length fields.  -> (pdus, remainder)."""
    out = []
    p = 0
    n = len(buf)
    while n - p >= 6:
        ln = struct.unpack('>I', buf[p + 2:p + 6])[0]
        if n - p < 6 + ln:
            break
        out.append(bytes(buf[p:p + 6 + ln]))
        p += 6 + ln
    return out, bytes(buf[p:])


def parse_stream(buf):
    """-> (list of parsed PDUs | ('malformed', msg, raw)), remainder bytes"""
    raws, rem = split_stream(buf)
    out = []
    for r in raws:
        try:
            out.append(parse_pdu(r))
        except Malformed as e:
            out.append({'type': r[0], 'kind': 'MALFORMED', 'error': str(e), 'raw': r})
    return out, rem


def summarize(p):
    """Short canonical, hashable description of a parsed PDU (for comparisons and reports)."""
    t = p['kind']
    if t in ('A-ASSOCIATE-RQ', 'A-ASSOCIATE-AC'):
        ui = tuple(x if x[0] != 'unknown' else ('unknown', x[1], bytes(x[2]))
                   for x in (p['user_info'] or ()))
        return (t, p['called'], p['calling'], p['app_context'], tuple(p['contexts']), ui)
    if t == 'A-ASSOCIATE-RJ':
        return (t, p['result'], p['source'], p['reason'])
    if t == 'A-ABORT':
        return (t, p['source'], p['reason'])
    if t == 'P-DATA-TF':
        return (t, tuple((c, m, bytes(b)) for c, m, b in p['pdvs']))
    if t == 'MALFORMED':
        return (t, p['error'])
    return (t,)


# ------------------------------------------------------------------------------ command sets

# tag -> VR for the command group (PS3.7 E.1)
CMD_VR = {
    0x0000: 'UL', 0x0002: 'UI', 0x0003: 'UI', 0x0100: 'US', 0x0110: 'US', 0x0120: 'US',
    0x0600: 'AE', 0x0700: 'US', 0x0800: 'US', 0x0900: 'US', 0x0901: 'AT', 0x0902: 'LO',
    0x0903: 'US', 0x1000: 'UI', 0x1001: 'UI', 0x1002: 'US', 0x1005: 'AT', 0x1008: 'US',
    0x1020: 'US', 0x1021: 'US', 0x1022: 'US', 0x1023: 'US', 0x1030: 'AE', 0x1031: 'US',
}
CMD_NAMES = {
    0x0000: 'CommandGroupLength', 0x0002: 'AffectedSOPClassUID', 0x0003: 'RequestedSOPClassUID',
    0x0100: 'CommandField', 0x0110: 'MessageID', 0x0120: 'MessageIDBeingRespondedTo',
    0x0600: 'MoveDestination', 0x0700: 'Priority', 0x0800: 'CommandDataSetType',
    0x0900: 'Status', 0x0901: 'OffendingElement', 0x0902: 'ErrorComment', 0x0903: 'ErrorID',
    0x1000: 'AffectedSOPInstanceUID', 0x1001: 'RequestedSOPInstanceUID', 0x1002: 'EventTypeID',
    0x1005: 'AttributeIdentifierList', 0x1008: 'ActionTypeID',
    0x1020: 'NumberOfRemainingSuboperations', 0x1021: 'NumberOfCompletedSuboperations',
    0x1022: 'NumberOfFailedSuboperations', 0x1023: 'NumberOfWarningSuboperations',
    0x1030: 'MoveOriginatorApplicationEntityTitle', 0x1031: 'MoveOriginatorMessageID',
}
NO_DATASET = 0x0101

COMMAND_FIELDS = {
    0x0001: 'C-STORE-RQ', 0x8001: 'C-STORE-RSP', 0x0010: 'C-GET-RQ', 0x8010: 'C-GET-RSP',
    0x0020: 'C-FIND-RQ', 0x8020: 'C-FIND-RSP', 0x0021: 'C-MOVE-RQ', 0x8021: 'C-MOVE-RSP',
    0x0030: 'C-ECHO-RQ', 0x8030: 'C-ECHO-RSP', 0x0FFF: 'C-CANCEL-RQ',
    0x0100: 'N-EVENT-REPORT-RQ', 0x8100: 'N-EVENT-REPORT-RSP', 0x0110: 'N-GET-RQ',
    0x8110: 'N-GET-RSP', 0x0120: 'N-SET-RQ', 0x8120: 'N-SET-RSP', 0x0130: 'N-ACTION-RQ',
    0x8130: 'N-ACTION-RSP', 0x0140: 'N-CREATE-RQ', 0x8140: 'N-CREATE-RSP',
    0x0150: 'N-DELETE-RQ', 0x8150: 'N-DELETE-RSP',
}


def _enc_value(vr, v):
    if vr == 'US':
        if isinstance(v, (list, tuple)):
            return b''.join(struct.pack('<H', x) for x in v)
        return struct.pack('<H', v)
    if vr == 'UL':
        return struct.pack('<I', v)
    if vr == 'AT':
        vs = v if isinstance(v, (list, tuple)) and v and isinstance(v[0], (list, tuple)) else [v]
        return b''.join(struct.pack('<HH', g, e) for g, e in vs)
    b = v.encode('ascii') if isinstance(v, str) else bytes(v)
    if len(b) % 2:
        b += b'\0' if vr == 'UI' else b' '
    return b


def enc_command(fields, fix_length=True):
    """fields: dict element-number -> value (group 0000).  Returns implicit-VR-LE bytes with a
    correct (0000,0000)."""
    rest = b''
    for el in sorted(k for k in fields if k != 0):
        val = _enc_value(CMD_VR.get(el, 'UN'), fields[el])
        rest += struct.pack('<HHI', 0, el, len(val)) + val
    glen = fields.get(0) if (not fix_length and 0 in fields) else len(rest)
    return struct.pack('<HHII', 0, 0, 4, glen) + rest


def parse_command(raw):
    """Strict implicit-VR-LE element reader for a command group.
    -> list of (element-number, raw value bytes); raises Malformed."""
    r = 0
    out = []
    n = len(raw)
    while r < n:
        if n - r < 8:
            raise Malformed('command set: truncated element header at %d' % r)
        g, e, ln = struct.unpack('<HHI', raw[r:r + 8])
        r += 8
        if ln == 0xFFFFFFFF:
            raise Malformed('command set: undefined length')
        if r + ln > n:
            raise Malformed('command set: element (%04x,%04x) length %d overruns' % (g, e, ln))
        out.append(((g << 16) | e, bytes(raw[r:r + ln])))
        r += ln
    return out


def _dec_value(vr, b):
    if vr == 'US':
        if len(b) == 2:
            return struct.unpack('<H', b)[0]
        if len(b) % 2 == 0 and b:
            return tuple(struct.unpack('<%dH' % (len(b) // 2), b))
        return b
    if vr == 'UL':
        return struct.unpack('<I', b)[0] if len(b) == 4 else b
    if vr == 'AT':
        return tuple(struct.unpack('<HH', b[i:i + 4]) for i in range(0, len(b) - 3, 4))
    if vr in ('UI',):
        return b.rstrip(b'\0').rstrip(b' ').decode('ascii', 'replace')
    if vr in ('AE', 'LO'):
        return b.decode('ascii', 'replace').strip(' ')
    return b


def check_command(raw):
    """Well-formedness per PS3.7 for a transmitted command group.
    -> (fields dict el->value, list of problems)."""
    problems = []
    try:
        els = parse_command(raw)
    except Malformed as e:
        return {}, ['unparseable: %s' % e]
    fields = {}
    prev = -1
    for tag, val in els:
        if tag >> 16 != 0:
            problems.append('element outside group 0000: %08x' % tag)
        if tag <= prev:
            problems.append('tags not strictly ascending at %08x' % tag)
        prev = tag
        if len(val) % 2:
            problems.append('odd value length for %08x' % tag)
        el = tag & 0xffff
        fields[el] = _dec_value(CMD_VR.get(el, 'UN'), val)
    if not els or els[0][0] != 0:
        problems.append('(0000,0000) is not the first element')
    else:
        following = len(raw) - 12
        gl = fields.get(0)
        if len(els[0][1]) != 4:
            problems.append('(0000,0000) length %d' % len(els[0][1]))
        elif gl != following:
            problems.append('group length %r != %d bytes that follow' % (gl, following))
    if 0x0100 not in fields:
        problems.append('no Command Field')
    if 0x0800 not in fields:
        problems.append('no Command Data Set Type')
    return fields, problems


# ------------------------------------------------------------------------------ R-dimse

def fragment_message(pcid, cmd, data, max_length):
    """Reference fragmenter: -> list of PDVs (pcid, mch, payload); one PDV per future PDU
    with 6 + len(payload) <= max_length (0 = unlimited)."""
    size = (max_length - 6) if max_length else None
    out = []

    def cut(b, base):
        if size is None:
            parts = [b]
        else:
            parts = [b[i:i + size] for i in range(0, len(b), size)]
        for i, p in enumerate(parts):
            last = i == len(parts) - 1
            out.append((pcid, base | (2 if last else 0), p))
    cut(cmd, 1)
    if data:
        cut(data, 0)
    return out


class Reassembler(object):
    """Reference reassembly of a PDV stream into messages.  feed(pdv) returns a completed
    message dict or None; raises Malformed on a protocol violation."""

    def __init__(self):
        self._reset()
        self.messages = []
        self.problems = []

    def _reset(self):
        self.cmd = []
        self.data = []
        self.cmd_done = False
        self.data_done = False
        self.pcid = None
        self.fields = None
        self.nfrag = 0

    def idle(self):
        return self.nfrag == 0

    def feed(self, pdv):
        pcid, mch, payload = pdv
        if mch & ~3:
            raise Malformed('message control header %02x' % mch)
        if self.pcid is None:
            self.pcid = pcid
        elif pcid != self.pcid:
            raise Malformed('context id changes inside a message (%d -> %d)' % (self.pcid, pcid))
        self.nfrag += 1
        if mch & 1:
            if self.cmd_done:
                raise Malformed('command fragment after the last command fragment')
            if self.data:
                raise Malformed('command fragment after a data fragment')
            self.cmd.append(payload)
            if mch & 2:
                self.cmd_done = True
                self.fields, problems = check_command(b''.join(self.cmd))
                self.problems = problems
        else:
            if not self.cmd_done:
                raise Malformed('data fragment before the last command fragment')
            if self.data_done:
                raise Malformed('data fragment after the last data fragment')
            self.data.append(payload)
            if mch & 2:
                self.data_done = True
        if self.cmd_done:
            has_ds = self.fields.get(0x0800) != NO_DATASET
            if (not has_ds) or self.data_done:
                m = {'pcid': self.pcid, 'command': b''.join(self.cmd), 'fields': self.fields,
                     'problems': self.problems, 'data': b''.join(self.data) if has_ds else None,
                     'nfrag': self.nfrag}
                self._reset()
                self.messages.append(m)
                return m
        return None
