"""SimFS: in-memory files with fault injection; open/exists/write are scheduling points."""
import errno
import os as _os


class SimFile(object):
    def __init__(self, fs, path, data, mode):
        self.fs = fs
        self.path = path
        self.data = data          # shared bytearray (the inode)
        self.pos = len(data) if 'a' in mode else 0
        self.mode = mode
        self.closed = False
        self.name = path
        fs.open_files.append(self)

    def _chk(self):
        if self.closed:
            raise ValueError('I/O operation on closed file.')

    def read(self, n=-1):
        self._chk()
        fs = self.fs
        if fs.fail_read_at is not None and self.path.startswith(fs.fail_read_prefix):
            fs.nreads += 1
            if fs.nreads == fs.fail_read_at:
                fs.sim.bump('fs.read_error')
                raise OSError(errno.EIO, _os.strerror(errno.EIO))
        if n is None or n < 0:
            n = len(self.data) - self.pos
        elif n > 1 and fs.short_read_prefix and self.path.startswith(fs.short_read_prefix) \
                and len(self.data) - self.pos > 1 and fs.sim.in_task():
            # a raw / unbuffered stream may return fewer bytes than asked for although more
            # remain (io.RawIOBase contract): a seeded fraction of the reads does
            if fs.sim.chance('fs', 0.4, 'shortread'):
                n = 1 + fs.sim.choose('fs', min(n, len(self.data) - self.pos) - 1 or 1, 'shortn')
                fs.sim.bump('fs.short_read')
        b = bytes(self.data[self.pos:self.pos + n])
        self.pos += len(b)
        return b

    def write(self, b):
        self._chk()
        fs = self.fs
        fs.sim.yield_('fs.write')
        fs.nwrites += 1
        if fs.fail_write_at is not None and fs.nwrites == fs.fail_write_at:
            fs.sim.bump('fs.write_error')
            raise OSError(fs.fail_errno, _os.strerror(fs.fail_errno))
        b = bytes(b)
        end = self.pos + len(b)
        if self.pos > len(self.data):
            self.data.extend(b'\0' * (self.pos - len(self.data)))
        self.data[self.pos:end] = b
        self.pos = end
        return len(b)

    def writelines(self, lines):
        for l in lines:
            self.write(l)

    def seek(self, off, whence=0):
        self._chk()
        if whence == 0:
            self.pos = off
        elif whence == 1:
            self.pos += off
        else:
            self.pos = len(self.data) + off
        if self.pos < 0:
            self.pos = 0
            raise OSError(errno.EINVAL, 'Invalid argument')
        return self.pos

    def tell(self):
        self._chk()
        return self.pos

    def flush(self):
        pass

    def close(self):
        self.closed = True

    def readable(self):
        return True

    def writable(self):
        return True

    def seekable(self):
        return True

    def __enter__(self):
        return self

    def __exit__(self, *a):
        self.close()


class SimFS(object):
    def __init__(self, sim):
        self.sim = sim
        self.files = {}           # path -> bytearray
        self.open_files = []
        self.history = []         # (op, path, size-before) for the append-only directory model
        self.nwrites = 0
        self.fail_write_at = None
        self.short_read_prefix = None     # paths whose read(n) may come back short
        self.fail_open_at = None
        self.fail_errno = errno.ENOSPC
        self.nopens = 0
        self.ntemp = 0
        self.inside_get_file = 0
        self.fds = []
        self.fail_read_at = None
        self.fail_read_prefix = '/'
        self.nreads = 0

    # -- builtins.open replacement
    def open(self, path, mode='r', *a, **k):
        self.sim.yield_('fs.open')
        path = str(path)
        self.nopens += 1
        if self.fail_open_at is not None and self.nopens == self.fail_open_at:
            self.sim.bump('fs.open_error')
            raise OSError(self.fail_errno, _os.strerror(self.fail_errno), path)
        if 'w' in mode:
            before = len(self.files[path]) if path in self.files else None
            self.history.append(('truncate-open' if before is not None else 'create', path, before))
            if before is not None:
                self.sim.bump('probe.fs_existing_file_opened_w')
            self.files[path] = bytearray()
        elif 'x' in mode:
            if path in self.files:
                raise FileExistsError(errno.EEXIST, 'File exists', path)
            self.history.append(('create', path, None))
            self.files[path] = bytearray()
        elif path not in self.files:
            if 'a' in mode:
                self.files[path] = bytearray()
            else:
                raise FileNotFoundError(errno.ENOENT, 'No such file or directory', path)
        return SimFile(self, path, self.files[path], mode)

    def put(self, path, data):
        self.files[str(path)] = bytearray(data)

    def tempfile_ns(self):
        fs = self

        class _T(object):
            @staticmethod
            def TemporaryFile(*a, **k):  # noqa: N802
                fs.ntemp += 1
                return fs.open('/tmp/sim-temp-%d' % fs.ntemp, 'w+b')
        return _T

    def os_ns(self):
        fs = self

        class _Path(object):
            join = staticmethod(_os.path.join)
            basename = staticmethod(_os.path.basename)
            dirname = staticmethod(_os.path.dirname)

            @staticmethod
            def exists(p):
                fs.sim.yield_('fs.exists')
                return str(p) in fs.files

            @staticmethod
            def isfile(p):
                return str(p) in fs.files

        class _Os(object):
            path = _Path
            sep = _os.sep

            O_RDONLY, O_WRONLY, O_RDWR = _os.O_RDONLY, _os.O_WRONLY, _os.O_RDWR
            O_CREAT, O_EXCL, O_TRUNC, O_APPEND = _os.O_CREAT, _os.O_EXCL, _os.O_TRUNC, _os.O_APPEND
            error = OSError

            @staticmethod
            def open(p, flags, mode=0o777):
                fs.sim.yield_('fs.os_open')
                p = str(p)
                fs.nopens += 1
                if fs.fail_open_at is not None and fs.nopens == fs.fail_open_at:
                    fs.sim.bump('fs.open_error')
                    raise OSError(fs.fail_errno, _os.strerror(fs.fail_errno), p)
                exists = p in fs.files
                if exists and (flags & _os.O_CREAT) and (flags & _os.O_EXCL):
                    fs.sim.bump('probe.fs_exclusive_create_collision')
                    raise FileExistsError(errno.EEXIST, 'File exists', p)
                if not exists:
                    if not flags & _os.O_CREAT:
                        raise FileNotFoundError(errno.ENOENT, 'No such file or directory', p)
                    fs.history.append(('create', p, None))
                    fs.files[p] = bytearray()
                elif flags & _os.O_TRUNC:
                    fs.history.append(('truncate-open', p, len(fs.files[p])))
                    fs.files[p] = bytearray()
                fs.fds.append(p)
                return 5000 + len(fs.fds) - 1

            @staticmethod
            def fdopen(fd, mode='r', *a, **k):
                p = fs.fds[fd - 5000]
                return SimFile(fs, p, fs.files[p], mode.replace('w', 'r+') if 'w' in mode else mode)

            @staticmethod
            def close(fd):
                pass

            @staticmethod
            def listdir(p):
                p = str(p).rstrip('/') + '/'
                return sorted(x[len(p):] for x in fs.files if x.startswith(p))

            @staticmethod
            def remove(p):
                del fs.files[str(p)]
        return _Os

    def listdir(self, p):
        p = str(p).rstrip('/') + '/'
        return sorted(x[len(p):] for x in self.files if x.startswith(p))
